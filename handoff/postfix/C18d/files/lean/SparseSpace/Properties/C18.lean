import SparseSpace.Lemmas.DataSetPerm
import SparseSpace.Lemmas.DataSetRevert
import SparseSpace.Lemmas.DataSetWF
import Mathlib.Data.List.Forall2
/-!
# C18 — DataSet transformations preserve the labelled samples

Theorems about `Model/DataSet` (mirror of `sparseSpACE.DEMachineLearning.DataSet`), for data sets of every size and
dimension, arbitrary rational sample values (ties included), arbitrary labels and every admissible argument.

Clauses of the property and where they are carried:
* range ends after `scale_range`                         — `scale_range_ends`
* `revert_scaling` restores after any scaling history    — `revert_restores`; for every part / remainder / selection of
  a scaled set (stored offset, no reference to the current minimum) — `revert_restores_derived`, `revert_restores_split_pieces`
* multiset of (sample,label) pairs / labels attached     — `shuffle_perm`, `move_boundaries_perm`, `split_labels_perm`,
  `split_pieces_exact`, `split_without_labels_perm`, `remove_samples_perm`, `concatenate_samples`,
  `scaling_keeps_labels`
* scaling attributes carried along                       — `attrs_carried`
* out-of-range removal rejected without modification     — `remove_oob_rejects_unchanged`
* empty operands / failed scalings (any size incl. empty) — `concatenate_empty_operand`, `failed_first_scaling_unchanged`
* concatenation of different scalings refused            — FALSE of the code: `concat_never_refuses`,
  `concat_refuses_mismatch_counterexample`
* hypotheses of the above hold in every reachable state   — `wf_preserved` (+ `revert_restores_reachable`)
* operations on one object leave the other live objects alone — `pool_inplace_others_unchanged`
  (the defects fixed by the `fix:` commits — shared factor array, label views, 1-dimensional array ranges, repeated
  removal index, attribute-less empty removal — are gone from code and model)
-/
namespace SparseSpace.C18
open SparseSpace.DSM

/-! ## scaling to a range -/

/-- **Range ends.**  For a non-empty data set with `d`-component samples and `lo < hi`, `scale_range` (overriding or
not, first scaling or not) rescales every sample, keeps its label, and per dimension `k`: the column minimum `a` and
maximum `b` exist and are attained by samples; every value lands in `[lo, hi]`; a sample holding the minimum is mapped
onto `lo`, a sample holding the maximum onto `hi`; in a constant column (`a = b`, sklearn's convention) every value
is mapped onto `lo`. -/
theorem scale_range_ends (s : DS) (lo hi : Rat) (ov : Bool) (d : Nat)
    (hne : s.samples ≠ []) (hrect : Rect d s.rows) (hlt : lo < hi) :
    ∃ mn mx, colMins s.rows = some mn ∧ colMaxs s.rows = some mx ∧ mn.length = d ∧ mx.length = d ∧
      (∀ (k : Nat) (a : Rat), mn[k]? = some a →
        (∀ r ∈ s.rows, ∀ x, r[k]? = some x → a ≤ x) ∧ ∃ r ∈ s.rows, r[k]? = some a) ∧
      (∀ (k : Nat) (b : Rat), mx[k]? = some b →
        (∀ r ∈ s.rows, ∀ x, r[k]? = some x → x ≤ b) ∧ ∃ r ∈ s.rows, r[k]? = some b) ∧
      List.Forall₂ (fun p p' => p'.2 = p.2 ∧
          ∀ (k : Nat) (x : Rat), p.1[k]? = some x → ∃ a b x', mn[k]? = some a ∧ mx[k]? = some b ∧ p'.1[k]? = some x' ∧
            lo ≤ x' ∧ x' ≤ hi ∧ (x = a → x' = lo) ∧ (x = b → a ≠ b → x' = hi) ∧ (a = b → x' = lo))
        s.samples (scaleRange s lo hi ov).1.samples := by
  have hrne : s.rows ≠ [] := by simpa [DS.rows] using hne
  obtain ⟨mn, hmn, hmnl, hmnspec⟩ := colMins_spec hrne hrect
  obtain ⟨mx, hmx, hmxl, hmxspec⟩ := colMaxs_spec hrne hrect
  refine ⟨mn, mx, hmn, hmx, hmnl, hmxl, hmnspec, hmxspec, ?_⟩
  rw [scaleRange_samples hlt hmn hmx, List.forall₂_map_right_iff, List.forall₂_same]
  intro p hp
  refine ⟨rfl, ?_⟩
  intro k x hx
  have hpl : p.1.length = d := rect_of_samples hrect p hp
  have hk : k < d := by
    rw [← hpl]; exact (List.getElem?_eq_some_iff.mp hx).1
  have ha : mn[k]? = some mn[k] := List.getElem?_eq_getElem (by omega)
  have hb : mx[k]? = some mx[k] := List.getElem?_eq_getElem (by omega)
  have hrow : p.1 ∈ s.rows := List.mem_map.mpr ⟨p, hp, rfl⟩
  have hax := (hmnspec k _ ha).1 p.1 hrow x hx
  have hxb := (hmxspec k _ hb).1 p.1 hrow x hx
  obtain ⟨h1, h2, h3, h4, h5⟩ := mm_entry lo hi mn[k] mx[k] x hlt hax hxb
  exact ⟨mn[k], mx[k], _, ha, hb, mmRow_entry ha hb hx, h1, h2, h3, h4, h5⟩

/-- non-vacuity: two dimensions, a tie in the minimum of the first, a constant second column -/
example : (scaleRange (ctor [([1, 5], 0), ([3, 5], -1), ([1, 5], 1), ([2, 5], 0)]) 0 1 false).1.samples =
    [([0, 0], 0), ([1, 0], -1), ([0, 0], 1), ([1/2, 0], 0)] := by decide +kernel

/-! ## reverting -/

/-- the model run of a list of non-overriding scaling operations -/
def runNonOverriding (s : DS) (ops : List ScOp) : DS := ops.foldl (fun s op => (op.apply s false).1) s

theorem scaledFrom_run {s0 : DS} {d : Nat} (hne : s0.samples ≠ []) (hrect : Rect d s0.rows) :
    ∀ (ops : List ScOp) (s : DS), ScaledFrom s0 s d → (∀ op ∈ ops, op.Valid d) →
      ScaledFrom s0 (runNonOverriding s ops) d
  | [], s, h, _ => h
  | op :: ops, s, h, hv => by
    have := (step_preserves hne hrect h (hv op (by simp))).2
    exact scaledFrom_run hne hrect ops _ this (fun o ho => hv o (by simp [ho]))

/-- **Reverting restores.**  Let `s0` be any non-empty data set (scaled or not) with `d`-component samples.  Apply a
first scaling `op1` (any of `scale_range`, `scale_factor`, `shift_value`; `s0` unscaled, or the operation overriding),
then ANY finite sequence `ops` of non-overriding scalings, shifts and non-zero factors (scalar or per-dimension), then
`revert_scaling`: no exception, the samples (values and labels, in order) are exactly those of `s0`, and the scaling
attributes are reset. -/
theorem revert_restores (s0 : DS) (d : Nat) (op1 : ScOp) (ov : Bool) (ops : List ScOp)
    (hne : s0.samples ≠ []) (hrect : Rect d s0.rows) (hdim : s0.dim = d)
    (hfirst : s0.scaled = false ∨ ov = true) (h1 : op1.Valid d) (hops : ∀ op ∈ ops, op.Valid d) :
    let s := runNonOverriding (op1.apply s0 ov).1 ops
    (revert s).2 = none ∧ (revert s).1.samples = s0.samples ∧ (revert s).1.scaled = false ∧
    (revert s).1.range = none ∧ (revert s).1.factor = none ∧ (revert s).1.omin = none ∧ (revert s).1.omax = none := by
  intro s
  have hinv : ScaledFrom s0 s d :=
    scaledFrom_run hne hrect ops _ (first_establishes hne hrect hdim h1 hfirst).2 hops
  obtain ⟨r1, r2, r3, r4, r5, r6, r7, _⟩ := revert_from hne hrect hinv
  exact ⟨r1, r2, r3, r4, r5, r6, r7⟩

/-- **Reverting restores every derived set.**  Same history as in `revert_restores`.  Let `r` be any set that carries the
attributes of the scaled set `s`, has its dimension and holds a selection `sel` of its samples that does not look at the
values (`Commutes`: prefix / suffix of `split_pieces`, the label filters of `split_labels` / `split_without_labels`, the
samples kept or picked by `remove_samples` — `commutes_take`, `commutes_drop`, `commutes_filter_label`,
`commutes_deleteIdx`, `commutes_pick`).  Then `revert_scaling` of `r` returns exactly the same selection of the ORIGINAL
samples — whether or not `r` holds the sample that had the original minimum (the offset is stored, not recomputed). -/
theorem revert_restores_derived (s0 : DS) (d : Nat) (op1 : ScOp) (ov : Bool) (ops : List ScOp)
    (hne : s0.samples ≠ []) (hrect : Rect d s0.rows) (hdim : s0.dim = d)
    (hfirst : s0.scaled = false ∨ ov = true) (h1 : op1.Valid d) (hops : ∀ op ∈ ops, op.Valid d)
    (sel : List Sample → List Sample) (hsel : Commutes sel) (hsub : ∀ p ∈ sel s0.samples, p ∈ s0.samples) (r : DS)
    (hattrs : attrs r = attrs (runNonOverriding (op1.apply s0 ov).1 ops)) (hrdim : r.dim = d)
    (hsmp : r.samples = sel (runNonOverriding (op1.apply s0 ov).1 ops).samples) (hrne : sel s0.samples ≠ []) :
    (revert r).2 = none ∧ (revert r).1.samples = sel s0.samples ∧ (revert r).1.scaled = false ∧
    (revert r).1.factor = none ∧ (revert r).1.offset = none := by
  have hinv : ScaledFrom s0 (runNonOverriding (op1.apply s0 ov).1 ops) d :=
    scaledFrom_run hne hrect ops _ (first_establishes hne hrect hdim h1 hfirst).2 hops
  have himg := hinv.img.derived hsel hattrs hrdim hsmp
  obtain ⟨r1, r2, r3, _, r5, r6, _⟩ :=
    revert_image hrne (fun p hp => rect_of_samples hrect p (hsub p hp)) himg
  exact ⟨r1, r2, r3, r5, r6⟩

/-- the parts of `split_pieces` (the former defect: the second part does not hold the minimum) -/
theorem revert_restores_split_pieces (s0 : DS) (d : Nat) (op1 : ScOp) (ov : Bool) (ops : List ScOp)
    (hne : s0.samples ≠ []) (hrect : Rect d s0.rows) (hdim : s0.dim = d)
    (hfirst : s0.scaled = false ∨ ov = true) (h1 : op1.Valid d) (hops : ∀ op ∈ ops, op.Valid d)
    (p : Rat) (a b : DS) (h : splitPieces (runNonOverriding (op1.apply s0 ov).1 ops) p = .ok (a, b)) :
    let k := splitIndex (runNonOverriding (op1.apply s0 ov).1 ops) p
    (s0.samples.take k ≠ [] → (revert a).2 = none ∧ (revert a).1.samples = s0.samples.take k) ∧
    (s0.samples.drop k ≠ [] → (revert b).2 = none ∧ (revert b).1.samples = s0.samples.drop k) := by
  intro k
  have hinv : ScaledFrom s0 (runNonOverriding (op1.apply s0 ov).1 ops) d :=
    scaledFrom_run hne hrect ops _ (first_establishes hne hrect hdim h1 hfirst).2 hops
  have hsrect := hinv.img.rect (rect_of_samples hrect)
  obtain ⟨f, bb, _, _, _, _, _, hs⟩ := hinv.img.rep
  obtain ⟨ha, hb, haa, hba⟩ := splitPieces_spec h
  obtain ⟨hda, hdb⟩ := splitPieces_dims h
  have hlen : ∀ q ∈ (runNonOverriding (op1.apply s0 ov).1 ops).samples, q.1.length = d := rect_of_samples hsrect
  refine ⟨fun hk => ?_, fun hk => ?_⟩
  · have hne' : (runNonOverriding (op1.apply s0 ov).1 ops).samples.take k ≠ [] := by
      rw [hs, ← List.map_take]; simpa using hk
    have hd : a.dim = d := by
      rw [hda]; exact ctor_dim_of_ne hne' (fun q hq => hlen q (List.mem_of_mem_take hq))
    obtain ⟨r1, r2, _⟩ := revert_restores_derived s0 d op1 ov ops hne hrect hdim hfirst h1 hops (List.take k)
      (commutes_take k) (fun q hq => List.mem_of_mem_take hq) a haa hd ha hk
    exact ⟨r1, r2⟩
  · have hne' : (runNonOverriding (op1.apply s0 ov).1 ops).samples.drop k ≠ [] := by
      rw [hs, ← List.map_drop]; simpa using hk
    have hd : b.dim = d := by
      rw [hdb]; exact ctor_dim_of_ne hne' (fun q hq => hlen q (List.mem_of_mem_drop hq))
    obtain ⟨r1, r2, _⟩ := revert_restores_derived s0 d op1 ov ops hne hrect hdim hfirst h1 hops (List.drop k)
      (commutes_drop k) (fun q hq => List.mem_of_mem_drop hq) b hba hd hb hk
    exact ⟨r1, r2⟩

/-- non-vacuity = the former witness: scale to (0,1), split in halves, revert the half WITHOUT the minimum; also the
set that remains after removing the minimum sample -/
example :
    let s0 := ctor [([0], 0), ([1], 0), ([2], 1), ([3], 1)]
    let s := (scaleRange s0 0 1 false).1
    (match splitPieces s (1/2) with
     | .ok (a, b) => decide ((revert b).2 = none ∧ (revert b).1.samples = [([2], 1), ([3], 1)] ∧
                             (revert a).1.samples = [([0], 0), ([1], 0)])
     | .error _ => false) = true ∧
    (revert (removeSamples s [0]).1).1.samples = [([1], 0), ([2], 1), ([3], 1)] := by decide +kernel

/-- non-vacuity: range, negative per-dimension factor, shift, range again (ties, constant column), then revert -/
example :
    let s0 := ctor [([1, 5], 0), ([3, 5], -1), ([1, 5], 1), ([2, 5], 0)]
    let s := runNonOverriding ((ScOp.range 0 1).apply s0 false).1
      [.factor (.vec [-2, 3]), .shift (.scalar (7/4)), .range (-1) 1, .factor (.scalar (1/2))]
    s.samples ≠ s0.samples ∧ (revert s).1.samples = s0.samples ∧ (revert s).2 = none := by decide +kernel

/-- in every outcome of a scaling operation or a revert (success or exception) the labels stay in place -/
theorem scaling_keeps_labels (s : DS) (op : ScOp) (ov : Bool) :
    (op.apply s ov).1.labels = s.labels ∧ (revert s).1.labels = s.labels := by
  refine ⟨?_, revert_labels s⟩
  cases op with
  | range lo hi => exact scaleRange_labels s lo hi ov
  | factor f => exact facShift_labels s false f ov
  | shift v => exact facShift_labels s true v ov

/-- non-vacuity: also on the exception paths (zero factor then revert: ZeroDivisionError; wrong-length argument) -/
example :
    let s := (scaleFactor (ctor [([1, 5], 0), ([3, 5], -1)]) (.scalar 0) false).1
    (revert s).2 = some .zerodiv ∧ (revert s).1.labels = [0, -1] ∧
    (scaleFactor s (.vec [1, 2, 3]) false).2 = some .value ∧ (scaleFactor s (.vec [1, 2, 3]) false).1.labels = [0, -1] := by
  decide +kernel

/-! ## sample-moving operations: multiset of (sample, label) pairs, attached labels -/

/-- `shuffle`: for every permutation drawn, the pairs are permuted; the scaling attributes are untouched -/
theorem shuffle_perm (s : DS) (perm : List Nat) (h : perm.Perm (List.range s.samples.length)) :
    (shuffle s perm).samples.Perm s.samples ∧
    ((shuffle s perm).scaled, (shuffle s perm).range, (shuffle s perm).factor, (shuffle s perm).omin, (shuffle s perm).omax)
      = (s.scaled, s.range, s.factor, s.omin, s.omax) :=
  ⟨perm_filterMap_getElem? s.samples perm h, rfl⟩

example : (shuffle (ctor [([1], 0), ([2], 1), ([3], -1)]) [2, 0, 1]).samples = [([3], -1), ([1], 0), ([2], 1)] := by
  decide +kernel

/-- labels need not be whole numbers (regression targets, one-vs-others weights): they travel with their samples -/
example : (shuffle (ctor [([1], 1/2), ([2], -2/3), ([3], -1), ([4], 9/4)]) [3, 1, 0, 2]).samples =
    [([4], 9/4), ([2], -2/3), ([1], 1/2), ([3], -1)] := by decide +kernel

/-- `move_boundaries_to_front`: for EVERY enumeration order of the boundary rows (indeed for every index list) the
pairs are permuted and all attributes are untouched -/
theorem move_boundaries_perm (s : DS) (order : List Nat) :
    (moveBoundaries s order).samples.Perm s.samples ∧ attrs (moveBoundaries s order) = attrs s :=
  ⟨foldl_swapAt_perm _ _, rfl⟩

example : (moveBoundaries (ctor [([5], 0), ([1], 1), ([2], 2), ([0], 3), ([9], 4)]) [3, 4]).samples =
    [([0], 3), ([9], 4), ([2], 2), ([5], 0), ([1], 1)] := by decide +kernel

/-- `split_labels`: the parts together hold exactly the pairs of the set, every part holds one label, and every part
carries the attributes; `order` is any duplicate-free enumeration of the labels that occur -/
theorem split_labels_perm (s : DS) (order : List Rat) (parts : List DS)
    (hn : order.Nodup) (hc : ∀ p ∈ s.samples, p.2 ∈ order) (h : splitLabels s order = .ok parts) :
    (parts.flatMap (·.samples)).Perm s.samples ∧ (∀ r ∈ parts, attrs r = attrs s) ∧
    List.Forall₂ (fun j r => ∀ p ∈ r.samples, p.2 = j) order parts := by
  obtain ⟨h1, h2, h3⟩ := splitLabels_spec h
  exact ⟨h1 ▸ flatMap_filter_perm order hn s.samples hc, h2, h3⟩

example : (splitLabels (ctor [([1], 1), ([5], -1), ([2], 0), ([3], 1)]) [0, 1, -1]).map (·.map (·.samples)) =
    .ok [[([2], 0)], [([1], 1), ([3], 1)], [([5], -1)]] := by decide +kernel

/-- `split_pieces`: the two parts are a prefix and the complementary suffix, in order -/
theorem split_pieces_exact (s a b : DS) (p : Rat) (h : splitPieces s p = .ok (a, b)) :
    a.samples ++ b.samples = s.samples ∧ attrs a = attrs s ∧ attrs b = attrs s := by
  obtain ⟨h1, h2, h3, h4⟩ := splitPieces_spec h
  exact ⟨by rw [h1, h2, List.take_append_drop], h3, h4⟩

example : (splitPieces (ctor [([1], 1), ([5], -1), ([2], 0), ([3], 1), ([4], 0)]) (1/2)).map
    (fun q => (q.1.samples.length, q.2.samples.length)) = .ok (2, 3) := by decide +kernel

/-- `split_without_labels`: unlabelled and labelled part together hold exactly the pairs of the set (labels are `≥ -1`) -/
theorem split_without_labels_perm (s a b : DS) (hl : ∀ p ∈ s.samples, p.2 = -1 ∨ 0 ≤ p.2)
    (h : splitWithoutLabels s = .ok (a, b)) :
    (a.samples ++ b.samples).Perm s.samples ∧ (∀ p ∈ a.samples, p.2 = -1) ∧ (∀ p ∈ b.samples, 0 ≤ p.2) ∧
    attrs a = attrs s ∧ attrs b = attrs s := by
  obtain ⟨h1, h2, h3, h4⟩ := splitWithoutLabels_spec h
  refine ⟨?_, ?_, ?_, h3, h4⟩
  · rw [h1, h2]
    have : s.samples.filter (fun p => decide (p.2 ≥ 0)) = s.samples.filter (fun p => !(p.2 == -1)) := by
      apply List.filter_congr
      intro p hp
      rcases hl p hp with hq | hq
      · simp [hq]
      · have hne : p.2 ≠ -1 := by intro h; rw [h] at hq; exact absurd hq (by decide)
        simp [hne, hq]
    rw [this]
    exact List.filter_append_perm _ _
  · intro p hp; rw [h1] at hp; simpa using (List.mem_filter.mp hp).2
  · intro p hp; rw [h2] at hp; simpa using (List.mem_filter.mp hp).2

example : (splitWithoutLabels (ctor [([1], 1), ([5], -1), ([2], 0)])).map (fun q => (q.1.samples, q.2.samples)) =
    .ok ([([5], -1)], [([1], 1), ([2], 0)]) := by decide +kernel

/-- labels that are not whole numbers (regression targets, float class labels) keep their value in the parts -/
example :
    (splitWithoutLabels (ctor [([1], 9/4), ([5], -1), ([2], 1/2)])).map (fun q => q.2.samples) = .ok [([1], 9/4), ([2], 1/2)] ∧
    (splitLabels (ctor [([1], 9/4), ([2], 1/2)]) [9/4, 1/2]).map (·.map (·.samples)) = .ok [[([1], 9/4)], [([2], 1/2)]] := by
  decide +kernel

/-- labels strictly between the marker -1 and 0 (the weighted labels `-n_j/n_others` of `split_one_vs_others`, negative
regression targets): such a sample is neither "unlabelled" (`== -1`) nor "labelled" (`>= 0`) — `split_without_labels`
(and `remove_labels`, which is built on it) silently drops it.  The hypothesis of `split_without_labels_perm` is needed. -/
theorem split_without_labels_fractional_counterexample :
    ¬ (∀ (s a b : DS), (∀ p ∈ s.samples, -1 ≤ p.2) → splitWithoutLabels s = .ok (a, b) →
        (a.samples ++ b.samples).Perm s.samples) := by
  intro h
  have := (h (ctor [([1], 1), ([5], -1), ([2], -2/3)]) (ctor [([5], -1)]) (ctor [([1], 1)])
    (by decide +kernel) (by decide +kernel)).length_eq
  simp at this

/-- `remove_samples`: for valid indices (in any order, repetitions allowed — they are dropped) a returning call
splits the pairs of the set into removed and kept ones; the returned set and the remaining set carry the attributes
(also when no index is given). -/
theorem remove_samples_perm (s s' r : DS) (idx : List Int)
    (hv : ∀ i ∈ idx, 0 ≤ i ∧ i < (s.samples.length : Int))
    (h : removeSamples s idx = (s', .ok r)) :
    (r.samples ++ s'.samples).Perm s.samples ∧ attrs r = attrs s ∧ attrs s' = attrs s := by
  obtain ⟨h1, h2, _⟩ := removeSamples_attrs h
  exact ⟨removeSamples_perm hv h, h1, h2⟩

example : (fun q : DS × Except Err DS => (q.1.samples, q.2.map (·.samples)))
    (removeSamples (ctor [([1, 1], 1), ([5, 2], -1), ([2, 3], 0)]) [2, 0, 2]) =
    ([([5, 2], -1)], .ok [([2, 3], 0), ([1, 1], 1)]) := by decide +kernel

/-- one-dimensional data scaled by `shift_value` (array-valued range with one component): removal of two samples and
concatenation of the halves work -/
example :
    let s := (shiftValue (ctor [([0], 0), ([1], 0), ([2], 1), ([3], 1)]) (.scalar 1) false).1
    (removeSamples s [0, 2]).2.map (·.samples) = .ok [([1], 0), ([3], 1)] ∧
    (removeSamples s [0, 2]).1.samples = [([2], 0), ([4], 1)] ∧
    (removeSamples s []).2.map (·.scaled) = .ok true := by decide +kernel

/-- **Out-of-range removal.**  If some index is negative or `≥` the number of samples, `remove_samples` raises and
the data set is exactly what it was (`== length` slips through the bound check of the code but is rejected by the
indexing that follows, before anything is modified). -/
theorem remove_oob_rejects_unchanged (s : DS) (idx : List Int)
    (h : ∃ i ∈ idx, i < 0 ∨ (s.samples.length : Int) ≤ i) : ∃ e, removeSamples s idx = (s, .error e) :=
  removeSamples_oob h

example : removeSamples (ctor [([1], 1), ([5], -1)]) [0, 2] = (ctor [([1], 1), ([5], -1)], .error .index) := by decide +kernel
example : removeSamples (ctor [([1], 1), ([5], -1)]) [3] = (ctor [([1], 1), ([5], -1)], .error .value) := by decide +kernel

/-- `concatenate` / `list_concatenate`: whenever they return, the result holds the pairs of the operands in order
(this includes the shortcuts that return one operand when the other is empty) -/
theorem concatenate_samples (a b r : DS) (ds : List DS) :
    (concatenate a b = .ok r → r.samples = a.samples ++ b.samples) ∧
    (listConcatenate ds = .ok r → r.samples = ds.flatMap (·.samples)) :=
  ⟨DSM.concatenate_samples, listConcatenate_samples⟩

example : (concatenate (ctor [([1], 1)]) (ctor [([5], -1), ([2], 0)])).map (·.samples) =
    .ok [([1], 1), ([5], -1), ([2], 0)] := by decide +kernel

/-- **Attributes carried.**  Every set derived by `_update_internal` (parts of the three splits, the single-sample
sets of `remove_samples`) and every newly built concatenation carries shuffled flag, scaled flag, range, factor and
original min/max of the set it was derived from (for a concatenation: of `self`). -/
theorem attrs_carried (p c r : DS) (a b : DS) :
    (updateInternal p c = .ok r → attrs r = attrs p ∧ r.samples = c.samples) ∧
    (concatenateR a b = .ok (.fresh r) → attrs r = attrs a) :=
  ⟨fun h => ⟨(updateInternal_ok h).2.2.2, (updateInternal_ok h).1⟩, concatenateR_fresh_attrs⟩

/-! ## every history: the hypotheses of the theorems above hold in all reachable states -/

/-- **Invariant of all histories.**  `WF` (every sample has `_dim` components, labels are `≥ -1`, a non-empty set has
a 2-D value array) holds for every constructed set and is kept by EVERY operation in EVERY outcome (success or
exception), for the object operated on and for every set returned.  Hence the rectangularity / label hypotheses of the
theorems of this file hold after any sequence of operations. -/
theorem wf_preserved (s : DS) (hs : WF s) :
    (∀ l d, (∀ p ∈ l, p.1.length = d) → (∀ p ∈ l, -1 ≤ p.2) → WF (ctor l)) ∧
    (∀ op ov, WF (ScOp.apply s ov op).1) ∧ WF (revert s).1 ∧
    (∀ perm, WF (shuffle s perm)) ∧ (∀ order, WF (moveBoundaries s order)) ∧ (∀ idx, WF (removeLabels s idx).1) ∧
    (∀ order parts, splitLabels s order = .ok parts → ∀ r ∈ parts, WF r) ∧
    (∀ a b, splitWithoutLabels s = .ok (a, b) → WF a ∧ WF b) ∧
    (∀ p a b, splitPieces s p = .ok (a, b) → WF a ∧ WF b) ∧
    (∀ idx, WF (removeSamples s idx).1 ∧ ∀ r, (removeSamples s idx).2 = .ok r → WF r) ∧
    (∀ b r, WF b → concatenate s b = .ok r → WF r) ∧
    (∀ ds r, (∀ x ∈ ds, WF x) → listConcatenate ds = .ok r → WF r) := by
  refine ⟨fun l d h1 h2 => wf_ctor h1 h2, ?_, wf_revert hs, wf_shuffle hs, wf_moveBoundaries hs, wf_removeLabels hs,
    fun _ _ h => wf_splitLabels hs h, fun _ _ h => wf_splitWithoutLabels hs h, fun _ _ _ h => wf_splitPieces hs h,
    wf_removeSamples hs, fun _ _ hb h => wf_concatenate hs hb h, fun _ _ hds h => wf_listConcatenate hds h⟩
  intro op ov
  cases op with
  | range lo hi => exact wf_scaleRange hs lo hi ov
  | factor f => exact wf_facShift hs false f ov
  | shift v => exact wf_facShift hs true v ov

example : WF (ctor [([1, 5], 0), ([3, 5], -1)]) := wf_ctor (d := 2) (by decide) (by decide)

/-- `revert_restores` for any non-empty reachable (well-formed) data set: no further hypothesis on its shape -/
theorem revert_restores_reachable (s0 : DS) (hs : WF s0) (hne : s0.samples ≠ []) (op1 : ScOp) (ov : Bool) (ops : List ScOp)
    (hfirst : s0.scaled = false ∨ ov = true) (h1 : op1.Valid s0.dim) (hops : ∀ op ∈ ops, op.Valid s0.dim) :
    (revert (runNonOverriding (op1.apply s0 ov).1 ops)).2 = none ∧
    (revert (runNonOverriding (op1.apply s0 ov).1 ops)).1.samples = s0.samples :=
  let h := revert_restores s0 s0.dim op1 ov ops hne hs.rectRows rfl hfirst h1 hops
  ⟨h.1, h.2.1⟩

/-- non-vacuity of `attrs_carried`: a part of a scaled, shuffled set -/
example : (match splitPieces (shuffle (scaleRange (ctor [([0], 0), ([2], 1), ([4], 1)]) 0 1 false).1 [2, 0, 1]) (1/3) with
    | .ok q => decide (q.1.samples = [([1], 1)] ∧ q.1.shuffled = true ∧ q.1.scaled = true ∧ q.1.range = some (.pair 0 1) ∧
        q.1.factor = some (.vec [1/4]) ∧ q.1.omin = some [0] ∧ q.1.omax = some [4])
    | .error _ => false) = true := by decide +kernel

/-! ## empty operands and failed scalings (repaired defects) -/

/-- **Empty operand.**  If either operand is empty the other operand itself is returned — whatever the recorded
dimensions, the shape of the empty value array (`(0,)` after `shuffle` / `remove_labels` / a failed scaling, or
`(0,d)` after `remove_samples`) and the attributes the empty set carries; in particular no exception. -/
theorem concatenate_empty_operand (a b : DS) :
    (b.samples = [] → concatenate a b = .ok a) ∧ (a.samples = [] → b.samples ≠ [] → concatenate a b = .ok b) := by
  obtain ⟨h1, h2⟩ := concatenateR_empty a b
  exact ⟨fun hb => by simp [concatenate, h1 hb, Except.map, CRes.get],
    fun ha hb => by simp [concatenate, h2 ha hb, Except.map, CRes.get]⟩

/-- non-vacuity: an emptied 2-dimensional set whose array was flattened by `shuffle`, and a set of its dimension -/
example :
    let e := shuffle (removeSamples (ctor [([1, 2], 0)]) [0]).1 []
    let d := ctor [([3, 4], 1)]
    e.samples = [] ∧ e.dim = 2 ∧ e.flat = true ∧ d.flat = false ∧
    concatenate e d = .ok d ∧ concatenate d e = .ok d := by decide +kernel

/-- **Failed first scaling.**  When a first (or overriding) `scale_factor` / `shift_value` raises — empty set,
argument of the wrong length — the samples, the labels and every scaling attribute (in particular the original
min/max a scaled set remembers) are what they were; hence `_update_internal` keeps working (`AttrOK`). -/
theorem failed_first_scaling_unchanged (s : DS) (shift : Bool) (f : Fac) (ov : Bool) (e : Err)
    (hfirst : s.scaled = false ∨ ov = true) (h : (facShift s shift f ov).2 = some e) :
    (facShift s shift f ov).1.samples = s.samples ∧ attrs (facShift s shift f ov).1 = attrs s ∧
    (AttrOK s → AttrOK (facShift s shift f ov).1) := by
  have hcond : (!s.scaled || ov) = true := by rcases hfirst with h | h <;> simp [h]
  have key : (facShift s shift f ov).1.samples = s.samples ∧ attrs (facShift s shift f ov).1 = attrs s := by
    unfold facShift at h ⊢
    simp only [hcond, if_true] at h ⊢
    split
    · next hs => exact ⟨by simp [hs], rfl⟩
    · next r0 l0 t hs =>
      rw [hs] at h
      simp only at h
      split
      · exact ⟨rfl, rfl⟩
      · next hfit =>
        rw [if_neg hfit] at h
        split
        · next mn mx h1 h2 =>
          rw [hs] at h1 h2
          simp only [h1, h2] at h
          cases h
        · exact ⟨rfl, rfl⟩
  refine ⟨key.1, key.2, fun hok hsc => ?_⟩
  have := key.2
  simp only [attrs, Prod.mk.injEq] at this
  obtain ⟨_, h2, _, _, h5, h6, _⟩ := this
  rw [h5, h6]; exact hok (h2 ▸ hsc)

/-- non-vacuity: the former defect — an overriding shift on the empty unlabelled part of a scaled set raises and the
part can still be split -/
example :
    let s := (scaleRange (ctor [([1, 2], 0), ([3, 4], 1)]) 0 1 false).1
    (match splitWithoutLabels s with
     | .ok (e, _) => decide ((shiftValue e (.scalar 1) true).2 = some .value ∧
         (shiftValue e (.scalar 1) true).1.omin = some [1, 2] ∧
         (match splitPieces (shiftValue e (.scalar 1) true).1 (1/2) with | .ok _ => true | .error _ => false) = true)
     | .error _ => false) = true := by decide +kernel

/-! ## concatenation of different scalings is NOT refused -/

/-- **The defect, in general.**  `concatenate` compares `self` with the result that already carries `self`'s own
attributes.  Hence for non-empty operands of equal dimension (and equal array shape kind), whatever the scaling state
of the other operand, the concatenation is accepted whenever `self` is intact (`AttrOK`: a scaled set has its original
min/max; `RangeOK`: a scaled set has a range entry). -/
theorem concat_never_refuses (a b : DS) (hna : a.samples ≠ []) (hnb : b.samples ≠ [])
    (hd : a.dim = b.dim) (hf : a.flat = b.flat) (ha : AttrOK a) (hr : RangeOK a) :
    ∃ c, concatenateR a b = .ok (.fresh c) ∧ attrs c = attrs a ∧ c.samples = a.samples ++ b.samples := by
  obtain ⟨c, hc⟩ := concatenateR_never_refuses hna hnb hd hf ha hr
  exact ⟨c, hc, concatenateR_fresh_attrs hc, by simpa [CRes.get] using concatenateR_samples hc⟩

/-- non-vacuity: `self` scaled to (0,1), the other operand unscaled — the hypotheses hold, the scalings differ -/
example :
    let a := (scaleRange (ctor [([0, 1], 0), ([2, 5], 1)]) 0 1 false).1
    let b := ctor [([7, 7], 0)]
    a.samples ≠ [] ∧ b.samples ≠ [] ∧ a.dim = b.dim ∧ a.flat = b.flat ∧ AttrOK a ∧ RangeOK a ∧
    sameScaling a b = .ok false := by
  exact ⟨by decide +kernel, by decide +kernel, by decide +kernel, by decide +kernel, fun _ => by decide +kernel,
    fun _ => by decide +kernel, by decide +kernel⟩

/-- the property clause "concatenation of data sets with different scalings is refused" fails: an unscaled set and
a set scaled to (0,1) have different scalings (`same_scaling` says so) and are concatenated all the same -/
theorem concat_refuses_mismatch_counterexample :
    ¬ (∀ a b : DS, sameScaling a b = .ok false → ∃ e, concatenate a b = .error e) := by
  intro h
  obtain ⟨e, he⟩ := h (ctor [([0], 0), ([1], 0), ([2], 1), ([3], 1)])
    (scaleRange (ctor [([0], 0), ([1], 0), ([2], 1), ([4], 1)]) 0 1 false).1 (by decide +kernel)
  have hok : (match concatenate (ctor [([0], 0), ([1], 0), ([2], 1), ([3], 1)])
      (scaleRange (ctor [([0], 0), ([1], 0), ([2], 1), ([4], 1)]) 0 1 false).1 with
      | .ok _ => true | .error _ => false) = true := by decide +kernel
  rw [he] at hok
  simp at hok

/-! ## operations on one object do not touch the others -/

theorem zipIdx_map_getElem? {α β : Type} (l : List α) (f : α × Nat → β) (j : Nat) :
    (l.zipIdx.map f)[j]? = (l[j]?).map (fun x => f (x, j)) := by
  rw [List.getElem?_map, List.getElem?_zipIdx]
  cases l[j]? <;> simp

/-- every in-place operation (scalings, revert, shuffle, moving boundaries, removing labels) on object `i` leaves every
other live object exactly as it was, whatever arrays the objects share (copies, `DataSet(ds.get_data())`): no
operation modifies an array in place -/
theorem pool_inplace_others_unchanged (P : Pool) (i j : Nat) (op : IOp) (hij : j ≠ i) :
    ((P.inplace i op).1.get? j).map (·.ds) = (P.get? j).map (·.ds) := by
  have hset : ∀ (o : Obj) (n : Nat), (({ (P.setObj i o) with next := n } : Pool).get? j) = P.get? j := by
    intro o n
    simp only [Pool.get?, Pool.setObj]
    rw [List.getElem?_set_ne (Ne.symm hij)]
  have hset' : ∀ (o : Obj), ((P.setObj i o).get? j) = P.get? j := fun o => hset o (P.setObj i o).next
  unfold Pool.inplace
  cases hi : P.get? i with
  | none => rfl
  | some o =>
    cases op with
    | scaleRange lo hi ov =>
      simp only
      split
      · rw [hset']
      · split <;> rw [hset]
    | scaleFactor f ov =>
      simp only
      split
      · rw [hset']
      · split <;> rw [hset]
    | shiftValue v ov =>
      simp only
      split
      · rw [hset']
      · split <;> rw [hset]
    | revert => simp only; rw [hset]
    | shuffle perm => simp only; rw [hset]
    | moveBoundaries order => simp only; rw [hset]
    | removeLabels idx =>
      simp only
      split
      · rw [hset']
      · rw [hset]

/-- non-vacuity, and the two former defects: after scaling, splitting and reverting one half the parent still has its
factor and reverts to its original samples; moving the boundaries of the parent leaves the parts alone -/
example :
    let s0 := ctor [([0, 0], 0), ([1, 2], 1), ([2, 4], 0), ([3, 8], 1)]
    let P1 := ((Pool.empty.add s0 none none).inplace 0 (.scaleRange 0 1 false)).1
    let P2 := (P1.splitPieces 0 (1/2)).1
    let P3 := (P2.inplace 1 .revert).1
    let P4 := (P3.inplace 0 .revert).1
    (P3.get? 0).map (·.ds.factor) = some (some (.vec [1/3, 1/8])) ∧
    (P3.get? 1).map (·.ds.samples) = some [([0, 0], 0), ([1, 2], 1)] ∧
    (P4.get? 0).map (·.ds.samples) = some s0.samples := by decide +kernel

example :
    let s0 := ctor [([5], 0), ([1], 1), ([2], 2), ([0], 3), ([9], 4)]
    let P1 := ((Pool.empty.add s0 none none).splitPieces 0 (3/5)).1
    let P2 := (P1.inplace 0 (.moveBoundaries [3, 4])).1
    (P2.get? 1).map (·.ds.samples) = some [([5], 0), ([1], 1), ([2], 2)] ∧
    (P2.get? 0).map (·.ds.samples) = some [([0], 3), ([9], 4), ([2], 2), ([5], 0), ([1], 1)] := by decide +kernel

/-- non-vacuity with shared arrays (the former defect): a copy is rescaled by a factor and its boundary samples are
moved to the front — the source keeps its samples with their labels; likewise for a copy that still holds both arrays -/
example :
    let s0 := ctor [([5], 0), ([1], 1), ([2], 2), ([0], 3), ([9], 4)]
    let P1 := ((Pool.empty.add s0 none none).copy 0).1
    let P2 := (P1.inplace 1 (.scaleFactor (.scalar 2) false)).1
    let P3 := (P2.inplace 1 (.moveBoundaries [3, 4])).1
    let Q2 := (P1.inplace 1 (.moveBoundaries [3, 4])).1
    (P3.get? 1).map (·.ds.samples) = some [([0], 3), ([18], 4), ([4], 2), ([10], 0), ([2], 1)] ∧
    (P3.get? 0).map (·.ds.samples) = some s0.samples ∧ (Q2.get? 0).map (·.ds.samples) = some s0.samples := by
  decide +kernel

end SparseSpace.C18
