import SparseSpace.Lemmas.StdCombi
import SparseSpace.Lemmas.InterpPL
import SparseSpace.Lemmas.InterpQuad
import SparseSpace.Lemmas.InterpHat
/-!
# Exactness of the combination on the sparse-grid space: interpolation

For a valid scheme with index set `J`, every `k ∈ J` and every tensor product `u = u_1 ⊗ … ⊗ u_d` of functions
`u_i` that are piecewise linear on the level-`k_i` grid (`PLvec`; the tensor hats of level `k` are such functions and
span this space), the combined interpolant equals `u` everywhere in the box (`valid_pl_interp`).
-/
namespace SparseSpace

/-- `u_i ∈ V_{k_i}` for every dimension -/
def PLvec : List Rat → List Rat → LV → List (Rat → Rat) → Prop
  | [], [], [], [] => True
  | a :: as, b :: bs, k :: ks, u :: us => PLk a b k.toNat u ∧ PLvec as bs ks us
  | _, _, _, _ => False

/-- `x ∈ [a,b]` -/
def InBox : List Rat → List Rat → List Rat → Prop
  | [], [], [] => True
  | a :: as, b :: bs, x :: xs => a ≤ x ∧ x ≤ b ∧ InBox as bs xs
  | _, _, _ => False

theorem InBox_length : ∀ (a b x : List Rat), InBox a b x → x.length = a.length
  | [], [], [], _ => rfl
  | a :: as, b :: bs, x :: xs, h => by simp [InBox_length as bs xs h.2.2]
  | [], [], _ :: _, h => by simp [InBox] at h
  | [], _ :: _, _, h => by simp [InBox] at h
  | _ :: _, [], _, h => by simp [InBox] at h
  | _ :: _, _ :: _, [], h => by simp [InBox] at h

theorem PLvec_length : ∀ (a b : List Rat) (k : LV) (us : List (Rat → Rat)), PLvec a b k us →
    us.length = a.length ∧ k.length = a.length
  | [], [], [], [], _ => ⟨rfl, rfl⟩
  | a :: as, b :: bs, k :: ks, u :: us, h => by
      have := PLvec_length as bs ks us h.2
      simp [this.1, this.2]
  | [], [], [], _ :: _, h => by simp [PLvec] at h
  | [], [], _ :: _, _, h => by simp [PLvec] at h
  | [], _ :: _, _, _, h => by simp [PLvec] at h
  | _ :: _, [], _, _, h => by simp [PLvec] at h
  | _ :: _, _ :: _, [], _, h => by simp [PLvec] at h
  | _ :: _, _ :: _, _ :: _, [], h => by simp [PLvec] at h

theorem meshAxes_length : ∀ (bd : Flags) (a b : List Rat) (l : LV), a.length = l.length → b.length = l.length →
    (meshAxes a b l bd).length = l.length
  | bd, [], [], [], _, _ => rfl
  | bd, a :: as, b :: bs, l :: ls, ha, hb => by
      simp [meshAxes, meshAxes_length bd.tl as bs ls (by simpa using ha) (by simpa using hb)]
  | bd, [], _ :: _, [], _, hb => by simp at hb
  | bd, _ :: _, _, [], ha, _ => by simp at ha
  | bd, [], _, _ :: _, ha, _ => by simp at ha
  | bd, _ :: _, [], _ :: _, _, hb => by simp at hb

/-- on the mesh of the level `k` of `u` the product of the 1-D interpolants is `u` -/
theorem interpProd_self : ∀ (bd : Flags) (a b : List Rat) (k : LV) (us : List (Rat → Rat)) (x : List Rat),
    BoxOK a b → PLvec a b k us → InBox a b x → interpProd (meshAxes a b k bd) us x = tprod us x
  | bd, [], [], [], [], [], _, _, _ => rfl
  | bd, a :: as, b :: bs, k :: ks, u :: us, x :: xs, hab, hu, hx => by
      simp only [meshAxes, interpProd, tprod]
      rw [interp1_PL a b hab.1 (le_refl _) (bd 0) hu.1 x hx.1 hx.2.1,
        interpProd_self bd.tl as bs ks us xs hab.2 hu.2 hx.2.2]
  | bd, [], [], [], [], _ :: _, _, _, hx => by simp [InBox] at hx
  | bd, _ :: _, _ :: _, _, _, [], _, _, hx => by simp [InBox] at hx
  | bd, [], _ :: _, _, _, _, hab, _, _ => by simp [BoxOK] at hab
  | bd, _ :: _, [], _, _, _, hab, _, _ => by simp [BoxOK] at hab
  | bd, [], [], _ :: _, _, _, _, hu, _ => by simp [PLvec] at hu
  | bd, [], [], [], _ :: _, _, _, hu, _ => by simp [PLvec] at hu
  | bd, _ :: _, _ :: _, [], _, _, _, hu, _ => by simp [PLvec] at hu
  | bd, _ :: _, _ :: _, _ :: _, [], _, _, hu, _ => by simp [PLvec] at hu

/-- the product of the 1-D interpolants of `u` (of level `k`) does not change when `l` is replaced by `l ⊓ k` -/
theorem interpProd_meet : ∀ (bd : Flags) (a b : List Rat) (l k : LV) (us : List (Rat → Rat)) (x : List Rat),
    BoxOK a b → PLvec a b k us → InBox a b x → l.length = k.length →
    interpProd (meshAxes a b l bd) us x = interpProd (meshAxes a b (meet l k) bd) us x
  | bd, [], [], [], [], [], [], _, _, _, _ => rfl
  | bd, a :: as, b :: bs, l :: ls, k :: ks, u :: us, x :: xs, hab, hu, hx, hl => by
      simp only [meet_cons, meshAxes, interpProd]
      rw [interpProd_meet bd.tl as bs ls ks us xs hab.2 hu.2 hx.2.2 (by simpa using hl)]
      congr 1
      by_cases hkl : k ≤ l
      · have hmin : min l k = k := by omega
        rw [hmin, interp1_PL a b hab.1 (Int.toNat_le_toNat hkl) (bd 0) hu.1 x hx.1 hx.2.1,
          interp1_PL a b hab.1 (le_refl _) (bd 0) hu.1 x hx.1 hx.2.1]
      · have hmin : min l k = l := by omega
        rw [hmin]
  | bd, [], [], _ :: _, [], _, _, _, _, _, hl => by simp at hl
  | bd, [], [], [], _ :: _, _, _, _, _, _, hl => by simp at hl
  | bd, _, _, _ :: _, [], _, _, _, _, _, hl => by simp at hl
  | bd, _, _, [], _ :: _, _, _, _, _, _, hl => by simp at hl
  | bd, [], _ :: _, _, _, _, _, hab, _, _, _ => by simp [BoxOK] at hab
  | bd, _ :: _, [], _, _, _, _, hab, _, _, _ => by simp [BoxOK] at hab
  | bd, [], [], [], [], _ :: _, _, _, hu, _, _ => by simp [PLvec] at hu
  | bd, [], [], _ :: _, _ :: _, _, _, _, hu, _, _ => by simp [PLvec] at hu
  | bd, _ :: _, _ :: _, [], [], _, _, _, hu, _, _ => by simp [PLvec] at hu
  | bd, _ :: _, _ :: _, _ :: _, _ :: _, [], _, _, hu, _, _ => by simp [PLvec] at hu
  | bd, [], [], [], [], [], _ :: _, _, _, hx, _ => by simp [InBox] at hx
  | bd, _ :: _, _ :: _, _ :: _, _ :: _, _ :: _, [], _, _, hx, _ => by simp [InBox] at hx

section
variable {dim : Nat} {lmin : Int} {c : List (LV × Int)} {J : LV → Prop} [DecidablePred J]

/-- **interpolation is exact on the sparse-grid space**: for `k ∈ J` and `u = ⊗ u_i`, `u_i ∈ V_{k_i}`, the combined
interpolant is `u` at EVERY point of the box.  `hmv`: on the meshes of the returned grids the mesh values are the
values of `u` (always true with boundary points; without them it says that `u` vanishes where `points_not_zero`
declares a boundary point). -/
theorem valid_pl_interp (hv : ValidScheme dim lmin c J) (a b : List Rat) (hab : BoxOK a b) (ha : a.length = dim)
    (bd : Flags) (k : LV) (hkJ : J k) (us : List (Rat → Rat)) (hus : PLvec a b k us) (x : List Rat) (hx : InBox a b x)
    (hmv : ∀ p ∈ c, ∀ q ∈ cross (meshAxes a b p.1 bd), meshVal a b bd (tprod us) q = tprod us q) :
    combiInterp a b bd c (tprod us) x = tprod us x := by
  have hb : b.length = dim := by rw [← BoxOK_length a b hab]; exact ha
  obtain ⟨hk1, hk2⟩ := hv.jshape k hkJ
  have hxl : x.length = dim := by rw [InBox_length a b x hx]; exact ha
  have hul : us.length = dim := by rw [(PLvec_length a b k us hus).1]; exact ha
  have hstep : ∀ p ∈ c, interpN (meshAxes a b p.1 bd) (meshVal a b bd (tprod us)) x
      = interpProd (meshAxes a b p.1 bd) us x := by
    intro p hp
    have hlen := (hv.shape p hp).1
    rw [interpN_congr _ _ (tprod us) x (hmv p hp),
      interpN_tprod _ us x (by rw [meshAxes_length bd a b p.1 (by omega) (by omega)]; omega) (by omega)]
  have key := comb_collapse_rat dim lmin c J hv.shape hv.down hv.ident k hk1 hk2 hkJ
    (fun l => interpProd (meshAxes a b l bd) us x)
    (fun p hp => interpProd_meet bd a b p.1 k us x hab hus hx (by rw [(hv.shape p hp).1, hk1]))
  unfold combiInterp
  rw [← interpProd_self bd a b k us x hab hus hx, ← key]
  congr 1
  apply List.map_congr_left
  intro p hp
  rw [hstep p hp]

end

/-! ## integration -/

/-- every `u_i` vanishes at the ends of `[a_i, b_i]` when boundary points are off -/
def ZeroEndsVec : Flags → List Rat → List Rat → List (Rat → Rat) → Prop
  | _, [], [], [] => True
  | bd, a :: as, b :: bs, u :: us => ZeroEnds a b (bd 0) u ∧ ZeroEndsVec bd.tl as bs us
  | _, _, _, _ => False

/-- the product of the 1-D rules of `u` (of level `k`) does not change when `l` is replaced by `l ⊓ k` -/
theorem trapProd_meet : ∀ (bd : Flags) (a b : List Rat) (l k : LV) (us : List (Rat → Rat)),
    BoxOK a b → PLvec a b k us → ZeroEndsVec bd a b us → l.length = k.length →
    trapProd bd a b l us = trapProd bd a b (meet l k) us
  | bd, [], [], [], [], [], _, _, _, _ => rfl
  | bd, a :: as, b :: bs, l :: ls, k :: ks, u :: us, hab, hu, hz, hl => by
      simp only [meet_cons, trapProd]
      rw [trapProd_meet bd.tl as bs ls ks us hab.2 hu.2 hz.2 (by simpa using hl)]
      congr 1
      by_cases hkl : k ≤ l
      · have hmin : min l k = k := by omega
        rw [hmin, trap1_PL a b hab.1 (Int.toNat_le_toNat hkl) (bd 0) hu.1 hz.1]
      · have hmin : min l k = l := by omega
        rw [hmin]
  | bd, [], [], _ :: _, [], _, _, _, _, hl => by simp at hl
  | bd, [], [], [], _ :: _, _, _, _, _, hl => by simp at hl
  | bd, _, _, _ :: _, [], _, _, _, _, hl => by simp at hl
  | bd, _, _, [], _ :: _, _, _, _, _, hl => by simp at hl
  | bd, [], _ :: _, _, _, _, hab, _, _, _ => by simp [BoxOK] at hab
  | bd, _ :: _, [], _, _, _, hab, _, _, _ => by simp [BoxOK] at hab
  | bd, [], [], [], [], _ :: _, _, hu, _, _ => by simp [PLvec] at hu
  | bd, [], [], _ :: _, _ :: _, _, _, hu, _, _ => by simp [PLvec] at hu
  | bd, _ :: _, _ :: _, [], [], _, _, hu, _, _ => by simp [PLvec] at hu
  | bd, _ :: _, _ :: _, _ :: _, _ :: _, [], _, hu, _, _ => by simp [PLvec] at hu

section
variable {dim : Nat} {lmin : Int} {c : List (LV × Int)} {J : LV → Prop} [DecidablePred J]

/-- **integration is exact on the sparse-grid space**: for `k ∈ J` and `u = ⊗ u_i`, `u_i ∈ V_{k_i}` (vanishing at the
ends when boundary points are off), the combined integral is the product of the level-`k_i` trapezoidal values of the
`u_i`, i.e. (`trap1_eq_cellSum`) of the sums of their cell trapezoids = the exact integral of `u`. -/
theorem valid_pl_integral (hv : ValidScheme dim lmin c J) (a b : List Rat) (hab : BoxOK a b) (ha : a.length = dim)
    (bd : Flags) (k : LV) (hkJ : J k) (us : List (Rat → Rat)) (hus : PLvec a b k us) (hz : ZeroEndsVec bd a b us) :
    combiIntegral a b bd c (tprod us) = trapProd bd a b k us := by
  have hb : b.length = dim := by rw [← BoxOK_length a b hab]; exact ha
  obtain ⟨hk1, hk2⟩ := hv.jshape k hkJ
  have hul : us.length = dim := by rw [(PLvec_length a b k us hus).1]; exact ha
  have key := comb_collapse_rat dim lmin c J hv.shape hv.down hv.ident k hk1 hk2 hkJ
    (fun l => trapProd bd a b l us)
    (fun p hp => trapProd_meet bd a b p.1 k us hab hus hz (by rw [(hv.shape p hp).1, hk1]))
  unfold combiIntegral
  rw [← key]
  congr 1
  apply List.map_congr_left
  intro p hp
  have hlen := (hv.shape p hp).1
  rw [quadGrid_tprod bd a b p.1 us (by omega) (by omega) (by omega)]

end

/-! ## the mesh values of a function vanishing on the excluded boundary -/

/-- some coordinate of `q`, in a dimension WITHOUT boundary points, is an end of its interval -/
def OnBoundary : Flags → List Rat → List Rat → List Rat → Prop
  | bd, a :: as, b :: bs, q :: qs => (bd 0 = false ∧ (q = a ∨ q = b)) ∨ OnBoundary bd.tl as bs qs
  | _, _, _, _ => False

/-- `points_not_zero` only fires on points of the excluded boundary, on the meshes of the returned grids -/
def NoFalseBoundary (a b : List Rat) (bd : Flags) (c : List (LV × Int)) : Prop :=
  ∀ p ∈ c, ∀ q ∈ cross (meshAxes a b p.1 bd), pointNotZero a b bd q = false → OnBoundary bd a b q

theorem tprod_onBoundary : ∀ (bd : Flags) (a b : List Rat) (us : List (Rat → Rat)) (q : List Rat),
    ZeroEndsVec bd a b us → OnBoundary bd a b q → tprod us q = 0
  | bd, a :: as, b :: bs, u :: us, q :: qs, hz, hq => by
      unfold tprod
      rcases hq with ⟨hbd, rfl | rfl⟩ | hq
      · rw [(hz.1 hbd).1]; ring
      · rw [(hz.1 hbd).2]; ring
      · rw [tprod_onBoundary bd.tl as bs us qs hz.2 hq]; ring
  | _, [], _, _, _, _, hq => by simp [OnBoundary] at hq
  | _, _ :: _, [], _, _, _, hq => by simp [OnBoundary] at hq
  | _, _ :: _, _ :: _, _, [], _, hq => by simp [OnBoundary] at hq
  | _, _ :: _, _ :: _, [], _ :: _, hz, _ => by simp [ZeroEndsVec] at hz

/-- the hypothesis `hmv` of `valid_pl_interp` follows from `NoFalseBoundary` for functions vanishing at the ends of the
dimensions without boundary points -/
theorem hmv_of_noFalseBoundary (a b : List Rat) (bd : Flags) (c : List (LV × Int)) (us : List (Rat → Rat))
    (hz : ZeroEndsVec bd a b us) (hsep : NoFalseBoundary a b bd c) :
    ∀ p ∈ c, ∀ q ∈ cross (meshAxes a b p.1 bd), meshVal a b bd (tprod us) q = tprod us q := by
  intro p hp q hq
  unfold meshVal
  split
  · rfl
  · rename_i hnz
    exact (tprod_onBoundary bd a b us q hz (hsep p hp q hq (by simpa using hnz))).symm

/-! ## the boundary test of the repaired `points_not_zero` on the level meshes -/

theorem mem_fullAxis (a b : Rat) (l : Nat) (q : Rat) :
    q ∈ fullAxis a b l ↔ ∃ i, i ≤ 2 ^ l ∧ linPt a b (2 ^ l) i = q := by
  unfold fullAxis
  simp only [List.mem_map, List.mem_range'_1]
  constructor
  · rintro ⟨i, hi, rfl⟩; exact ⟨i, by omega, rfl⟩
  · rintro ⟨i, hi, rfl⟩; exact ⟨i, by omega, rfl⟩

theorem tol_lt_step (a b : Rat) (hab : a < b) (l : Nat) (hl : l ≤ 39) :
    1 / 1000000000000 * (b - a) < (b - a) / ((2 ^ l : Nat) : Rat) := by
  have hd : 0 < b - a := by linarith
  have h2 : ((2 ^ l : Nat) : Rat) ≤ ((2 ^ 39 : Nat) : Rat) := by
    exact_mod_cast Nat.pow_le_pow_right (by norm_num) hl
  have hpos : (0 : Rat) < ((2 ^ l : Nat) : Rat) := by positivity
  rw [lt_div_iff₀ hpos]
  have h3 : ((2 ^ 39 : Nat) : Rat) < 1000000000000 := by norm_num
  nlinarith

/-- a mesh node within the tolerance of the lower end IS the lower end (levels `≤ 39`) -/
theorem nearEnd_mesh_lo (a b : Rat) (hab : a < b) (l : Nat) (hl : l ≤ 39) (q : Rat) (hq : q ∈ meshAxis a b l false)
    (h : nearEnd q a a b = true) : q = a := by
  rw [meshAxis_eq_fullAxis, mem_fullAxis] at hq
  obtain ⟨i, _, rfl⟩ := hq
  have hd : 0 < b - a := by linarith
  have hstep := tol_lt_step a b hab l hl
  have hpos : (0 : Rat) < (b - a) / ((2 ^ l : Nat) : Rat) := div_pos hd (by positivity)
  rcases Nat.eq_zero_or_pos i with rfl | hi
  · exact linPt_zero a b _
  · exfalso
    unfold nearEnd at h
    rw [decide_eq_true_eq] at h
    have hsub : linPt a b (2 ^ l) i - a = (b - a) / ((2 ^ l : Nat) : Rat) * (i : Rat) := by unfold linPt; ring
    have hi' : (1 : Rat) ≤ (i : Rat) := by exact_mod_cast hi
    have hge : (b - a) / ((2 ^ l : Nat) : Rat) ≤ linPt a b (2 ^ l) i - a := by
      rw [hsub]; nlinarith
    rw [ratAbs_of_nonneg (by linarith)] at h
    linarith

/-- a mesh node within the tolerance of the upper end IS the upper end (levels `≤ 39`) -/
theorem nearEnd_mesh_hi (a b : Rat) (hab : a < b) (l : Nat) (hl : l ≤ 39) (q : Rat) (hq : q ∈ meshAxis a b l false)
    (h : nearEnd q b a b = true) : q = b := by
  rw [meshAxis_eq_fullAxis, mem_fullAxis] at hq
  obtain ⟨i, hi2, rfl⟩ := hq
  have hn : 0 < 2 ^ l := Nat.pos_of_ne_zero (by positivity)
  have hd : 0 < b - a := by linarith
  have hstep := tol_lt_step a b hab l hl
  have hpos : (0 : Rat) < (b - a) / ((2 ^ l : Nat) : Rat) := div_pos hd (by positivity)
  rcases Nat.lt_or_ge i (2 ^ l) with hi | hi
  · exfalso
    unfold nearEnd at h
    rw [decide_eq_true_eq] at h
    have hsub : linPt a b (2 ^ l) i - b = (b - a) / ((2 ^ l : Nat) : Rat) * ((i : Rat) - ((2 ^ l : Nat) : Rat)) := by
      have := linPt_sub a b (2 ^ l) i (2 ^ l)
      rw [linPt_last a b _ hn] at this
      exact this
    have hi' : (i : Rat) + 1 ≤ ((2 ^ l : Nat) : Rat) := by exact_mod_cast hi
    have hle : linPt a b (2 ^ l) i - b ≤ -((b - a) / ((2 ^ l : Nat) : Rat)) := by
      rw [hsub]; nlinarith
    rw [ratAbs_of_nonpos (by linarith)] at h
    linarith
  · have : i = 2 ^ l := by omega
    rw [this]; exact linPt_last a b _ hn

theorem anyNearOff_lo_onBoundary : ∀ (bd : Flags) (a b : List Rat) (l : LV) (q : List Rat), BoxOK a b →
    InAxes (meshAxes a b l bd) q → (∀ x ∈ l, x ≤ 39) → anyNearOff bd q a a b = true → OnBoundary bd a b q
  | bd, a :: as, b :: bs, l :: ls, q :: qs, hab, hq, hl, h => by
      simp only [meshAxes, InAxes] at hq
      simp only [anyNearOff, Bool.or_eq_true, Bool.and_eq_true, Bool.not_eq_true'] at h
      have hl0 : l.toNat ≤ 39 := by have := hl l (List.mem_cons_self ..); omega
      rcases h with ⟨hbd, h⟩ | h
      · have hq1 := hq.1
        rw [hbd] at hq1
        exact Or.inl ⟨hbd, Or.inl (nearEnd_mesh_lo a b hab.1 _ hl0 q hq1 h)⟩
      · exact Or.inr (anyNearOff_lo_onBoundary bd.tl as bs ls qs hab.2 hq.2
          (fun x hx => hl x (List.mem_cons_of_mem _ hx)) h)
  | _, [], _, _, _, _, _, _, h => by simp [anyNearOff] at h
  | _, _ :: _, [], _, _, hab, _, _, _ => by simp [BoxOK] at hab
  | _, _ :: _, _ :: _, [], q, _, hq, _, h => by
      cases q <;> simp [meshAxes, InAxes, anyNearOff] at hq h
  | _, _ :: _, _ :: _, _ :: _, [], _, _, _, h => by simp [anyNearOff] at h

theorem anyNearOff_hi_onBoundary : ∀ (bd : Flags) (a b : List Rat) (l : LV) (q : List Rat), BoxOK a b →
    InAxes (meshAxes a b l bd) q → (∀ x ∈ l, x ≤ 39) → anyNearOff bd q b a b = true → OnBoundary bd a b q
  | bd, a :: as, b :: bs, l :: ls, q :: qs, hab, hq, hl, h => by
      simp only [meshAxes, InAxes] at hq
      simp only [anyNearOff, Bool.or_eq_true, Bool.and_eq_true, Bool.not_eq_true'] at h
      have hl0 : l.toNat ≤ 39 := by have := hl l (List.mem_cons_self ..); omega
      rcases h with ⟨hbd, h⟩ | h
      · have hq1 := hq.1
        rw [hbd] at hq1
        exact Or.inl ⟨hbd, Or.inr (nearEnd_mesh_hi a b hab.1 _ hl0 q hq1 h)⟩
      · exact Or.inr (anyNearOff_hi_onBoundary bd.tl as bs ls qs hab.2 hq.2
          (fun x hx => hl x (List.mem_cons_of_mem _ hx)) h)
  | _, [], b, _, q, hab, _, _, h => by
      cases b <;> cases q <;> simp [anyNearOff] at h hab
  | _, _ :: _, [], _, _, hab, _, _, _ => by simp [BoxOK] at hab
  | _, _ :: _, _ :: _, [], q, _, hq, _, h => by
      cases q <;> simp [meshAxes, InAxes, anyNearOff] at hq h
  | _, _ :: _, _ :: _, _ :: _, [], _, _, _, h => by simp [anyNearOff] at h

/-- **the per-dimension boundary test fires only on points of the excluded boundary**: all levels `≤ 39` -/
theorem pointNotZero_false_onBoundary (a b : List Rat) (hab : BoxOK a b) (bd : Flags) (l : LV)
    (hl : ∀ x ∈ l, x ≤ 39) (q : List Rat) (hq : InAxes (meshAxes a b l bd) q)
    (hnz : pointNotZero a b bd q = false) : OnBoundary bd a b q := by
  simp only [pointNotZero, Bool.not_eq_false', Bool.or_eq_true] at hnz
  rcases hnz with h | h
  · exact anyNearOff_lo_onBoundary bd a b l q hab hq hl h
  · exact anyNearOff_hi_onBoundary bd a b l q hab hq hl h

theorem not_onBoundary_of_inGrid : ∀ (bd : Flags) (a b : List Rat) (l : LV) (x : List Rat), BoxOK a b →
    InGrid bd a b l x → ¬ OnBoundary bd a b x
  | bd, a :: as, b :: bs, l :: ls, x :: xs, hab, hx, h => by
      rcases h with ⟨hbd, h⟩ | h
      · have hx1 := hx.1
        rw [hbd] at hx1
        have hint := levelPoints_interior a b hab.1 _ hx1
        rcases h with h | h
        · rw [h] at hint; exact lt_irrefl _ hint.1
        · rw [h] at hint; exact lt_irrefl _ hint.2
      · exact not_onBoundary_of_inGrid bd.tl as bs ls xs hab.2 hx.2 h
  | _, [], _, _, _, _, _, h => by simp [OnBoundary] at h
  | _, _ :: _, [], _, _, _, _, h => by simp [OnBoundary] at h
  | _, _ :: _, _ :: _, _, [], _, _, h => by simp [OnBoundary] at h
  | _, _ :: _, _ :: _, [], _ :: _, _, hx, _ => by simp [InGrid] at hx

theorem inAxes_mesh_of_inGrid : ∀ (bd : Flags) (a b : List Rat) (l : LV) (x : List Rat),
    InGrid bd a b l x → InAxes (meshAxes a b l bd) x
  | bd, [], [], [], [], _ => trivial
  | bd, a :: as, b :: bs, l :: ls, x :: xs, h =>
      ⟨levelPoints_sub_meshAxis a b _ (bd 0) h.1, inAxes_mesh_of_inGrid bd.tl as bs ls xs h.2⟩
  | bd, [], [], [], _ :: _, h => by simp [InGrid] at h
  | bd, _ :: _, _ :: _, _ :: _, [], h => by simp [InGrid] at h
  | bd, [], _ :: _, _, _, h => by simp [InGrid] at h
  | bd, _ :: _, [], _, _, h => by simp [InGrid] at h
  | bd, [], [], _ :: _, _, h => by simp [InGrid] at h
  | bd, _ :: _, _ :: _, [], _, h => by simp [InGrid] at h

/-- no point of a component grid (levels `≤ 39`) is mistaken for a point of the excluded boundary -/
theorem pointNotZero_of_inGrid (a b : List Rat) (hab : BoxOK a b) (bd : Flags) (l : LV) (hl : ∀ x ∈ l, x ≤ 39)
    (x : List Rat) (hx : InGrid bd a b l x) : pointNotZero a b bd x = true := by
  by_contra hne
  have hnz : pointNotZero a b bd x = false := by simpa using hne
  exact not_onBoundary_of_inGrid bd a b l x hab hx
    (pointNotZero_false_onBoundary a b hab bd l hl x (inAxes_mesh_of_inGrid bd a b l x hx) hnz)

/-- **the boundary test fires only on points of the excluded boundary** (any flags, all levels `≤ 39`) -/
theorem noFalseBoundary_of_levels (a b : List Rat) (hab : BoxOK a b) (bd : Flags) (c : List (LV × Int))
    (hlev : ∀ p ∈ c, ∀ x ∈ p.1, x ≤ 39) : NoFalseBoundary a b bd c := by
  intro p hp q hq hnz
  rw [mem_cross] at hq
  exact pointNotZero_false_onBoundary a b hab bd p.1 (hlev p hp) q hq hnz

/-! ## tensor hats -/

/-- the tensor hat of level `k` at the node with indices `i` -/
def hatVec : List Rat → List Rat → LV → List Nat → List (Rat → Rat)
  | a :: as, b :: bs, k :: ks, i :: is => hatFn a b k.toNat i :: hatVec as bs ks is
  | _, _, _, _ => []

/-- closed form of the integral of a tensor hat: `Π h_d`, with `h_d / 2` for boundary hats -/
def hatIntegral : List Rat → List Rat → LV → List Nat → Rat
  | [], [], [], [] => 1
  | a :: as, b :: bs, k :: ks, i :: is =>
      ((b - a) / ((2 ^ k.toNat : Nat) : Rat) * (if i == 0 || i == 2 ^ k.toNat then 1 / 2 else 1))
        * hatIntegral as bs ks is
  | _, _, _, _ => 0

/-- `i_d` is the index of a returned node of level `k_d` in every dimension -/
def HatIdx : Flags → LV → List Nat → Prop
  | _, [], [] => True
  | bd, k :: ks, i :: is => i ∈ levelIdx k.toNat (bd 0) ∧ HatIdx bd.tl ks is
  | _, _, _ => False

theorem hatVec_PLvec : ∀ (bd : Flags) (a b : List Rat) (k : LV) (i : List Nat), BoxOK a b → a.length = k.length →
    HatIdx bd k i → PLvec a b k (hatVec a b k i)
  | bd, [], [], [], [], _, _, _ => trivial
  | bd, a :: as, b :: bs, k :: ks, i :: is, hab, hl, hi =>
      ⟨hatFn_PLk a b hab.1 _ i, hatVec_PLvec bd.tl as bs ks is hab.2 (by simpa using hl) hi.2⟩
  | bd, [], _ :: _, _, _, hab, _, _ => by simp [BoxOK] at hab
  | bd, _ :: _, [], _, _, hab, _, _ => by simp [BoxOK] at hab
  | bd, [], [], _ :: _, _, _, hl, _ => by simp at hl
  | bd, _ :: _, _ :: _, [], _, _, hl, _ => by simp at hl
  | bd, [], [], [], _ :: _, _, _, hi => by simp [HatIdx] at hi
  | bd, _ :: _, _ :: _, _ :: _, [], _, _, hi => by simp [HatIdx] at hi

theorem hatVec_zeroEnds : ∀ (bd : Flags) (a b : List Rat) (k : LV) (i : List Nat), BoxOK a b → a.length = k.length →
    HatIdx bd k i → ZeroEndsVec bd a b (hatVec a b k i)
  | bd, [], [], [], [], _, _, _ => trivial
  | bd, a :: as, b :: bs, k :: ks, i :: is, hab, hl, hi => by
      refine ⟨?_, hatVec_zeroEnds bd.tl as bs ks is hab.2 (by simpa using hl) hi.2⟩
      intro hbd
      have := (mem_levelIdx k.toNat (bd 0) i).1 hi.1
      rw [hbd] at this
      simp only [Bool.false_eq_true, if_false] at this
      exact hatFn_ends a b hab.1 k.toNat i this.1 this.2 (bd 0) hbd
  | bd, [], _ :: _, _, _, hab, _, _ => by simp [BoxOK] at hab
  | bd, _ :: _, [], _, _, hab, _, _ => by simp [BoxOK] at hab
  | bd, [], [], _ :: _, _, _, hl, _ => by simp at hl
  | bd, _ :: _, _ :: _, [], _, _, hl, _ => by simp at hl
  | bd, [], [], [], _ :: _, _, _, hi => by simp [HatIdx] at hi
  | bd, _ :: _, _ :: _, _ :: _, [], _, _, hi => by simp [HatIdx] at hi

theorem trapProd_hatVec : ∀ (bd : Flags) (a b : List Rat) (k : LV) (i : List Nat), BoxOK a b → a.length = k.length →
    HatIdx bd k i → trapProd bd a b k (hatVec a b k i) = hatIntegral a b k i
  | bd, [], [], [], [], _, _, _ => rfl
  | bd, a :: as, b :: bs, k :: ks, i :: is, hab, hl, hi => by
      simp only [hatVec, trapProd, hatIntegral]
      rw [trap1_hatFn a b hab.1 k.toNat i (bd 0) hi.1, trapProd_hatVec bd.tl as bs ks is hab.2 (by simpa using hl) hi.2]
  | bd, [], _ :: _, _, _, hab, _, _ => by simp [BoxOK] at hab
  | bd, _ :: _, [], _, _, hab, _, _ => by simp [BoxOK] at hab
  | bd, [], [], _ :: _, _, _, hl, _ => by simp at hl
  | bd, _ :: _, _ :: _, [], _, _, hl, _ => by simp at hl
  | bd, [], [], [], _ :: _, _, _, hi => by simp [HatIdx] at hi
  | bd, _ :: _, _ :: _, _ :: _, [], _, _, hi => by simp [HatIdx] at hi

/-! ## the levels of the standard scheme are bounded by `lmax` -/

theorem le_of_sum_le (lmin M : Int) : ∀ (k : LV), geAll lmin k → k.sum ≤ M - lmin + (k.length : Int) * lmin →
    ∀ x ∈ k, x ≤ M
  | [], _, _, x, hx => by simp at hx
  | y :: ys, hg, hs, x, hx => by
      have hy : lmin ≤ y := hg y (List.mem_cons_self ..)
      have hys : geAll lmin ys := fun z hz => hg z (List.mem_cons_of_mem _ hz)
      have hlow := sum_ge_of_geAll lmin ys hys
      simp only [List.sum_cons, List.length_cons] at hs
      push_cast at hs
      rcases List.mem_cons.1 hx with rfl | hx
      · nlinarith
      · exact le_of_sum_le lmin M ys hys (by nlinarith) x hx

theorem std_levels_le (dim : Nat) (lmin lmax : Int) (hd : 1 ≤ dim) (h0 : 0 ≤ lmin) (h : lmin ≤ lmax) :
    ∀ p ∈ stdScheme dim lmin lmax, ∀ x ∈ p.1, x ≤ lmax := by
  intro p hp
  have hI := (mem_I_init dim lmin lmax hd h p.1).1 ((std_valid dim lmin lmax hd h0 h).supp p hp)
  exact le_of_sum_le lmin lmax p.1 hI.2.1 (by rw [hI.1]; exact hI.2.2)

end SparseSpace
