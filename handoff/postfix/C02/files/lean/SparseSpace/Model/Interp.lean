/-!
# Model of the trapezoidal component grids and of multilinear interpolation on them

Mirrors `sparseSpACE/Grid.py` (`TrapezoidalGrid`, `TrapezoidalGrid1D`, `Grid.setCurrentArea`, `Grid.getPoints`,
`Grid.get_weights`, `Grid.levelToNumPoints`, `Grid.points_not_zero`), `sparseSpACE/Integrator.py`
(`IntegratorArbitraryGridScalarProduct`) and `sparseSpACE/GridOperation.py`
(`Integration.get_component_grid_values`, `Interpolation.interpolate_points`,
`GridOperation.interpolate_points_component_grid`) for the full domain `[a,b]` (the only area a `StandardCombi`
ever sets).  Import-free, executable, over `Rat`.

`scipy.interpolate.interpn(method='linear')` is a modelled external: iterated 1-D linear interpolation along the
axes (`interpN`), with scipy's bounds check (`interpPoints?`).
-/
namespace SparseSpace

/-- `np.linspace(a, b, n+1)[i]` (`arange(n+1) * step + a`, `step = (b-a)/n`) -/
def linPt (a b : Rat) (n i : Nat) : Rat := a + (b - a) / (n : Rat) * (i : Rat)

/-- the index slice `[lowerBorder:upperBorder]` of `Grid1d.set_current_area` for `start = a`, `end = b`:
all of `0..2^l` with boundary points, `1..2^l-1` without -/
def levelIdx (l : Nat) (bd : Bool) : List Nat :=
  if bd then List.range (2 ^ l + 1) else (List.range (2 ^ l - 1)).map (· + 1)

/-- `TrapezoidalGrid1D.get_1D_level_points` (the special case `num_points == 1` returns the same midpoint) -/
def levelPoints (a b : Rat) (l : Nat) (bd : Bool) : List Rat := (levelIdx l bd).map (linPt a b (2 ^ l))

/-- `TrapezoidalGrid1D.level_to_num_points_1d(level)` once an area was set with `start = a`, `end = b`:
`2**level + 1 - (not boundary) * 2` -/
def levelNumPoints (l : Nat) (bd : Bool) : Nat := 2 ^ l + 1 - (if bd then 0 else 2)

/-- `TrapezoidalGrid1D.level_to_num_points_1d` reads `self.start`/`self.end`, which only exist after the first
`set_current_area`: `areaSet = false` is the state of a freshly constructed grid (→ `AttributeError` = `none`). -/
def levelNumPoints? (areaSet : Bool) (l : Nat) (bd : Bool) : Option Nat :=
  if areaSet then some (levelNumPoints l bd) else none

/-- `TrapezoidalGrid1D.weight_composite_trapezoidal` for every returned index (`modified_basis = False`) -/
def levelWeights (a b : Rat) (l : Nat) (bd : Bool) : List Rat :=
  (levelIdx l bd).map fun i => (b - a) / ((2 ^ l : Nat) : Rat) * (if i == 0 || i == 2 ^ l then 1 / 2 else 1)

/-- `itertools.product(*one_d_arrays)` (`get_cross_product_list`): last axis fastest -/
def cross {α : Type} : List (List α) → List (List α)
  | [] => [[]]
  | xs :: rest => xs.flatMap fun x => (cross rest).map (x :: ·)

/-- boundary flags per dimension (`Grid.get_boundaries()`: `grids[d].boundary`); dimension `d` of the remaining
lists is `bd d` -/
abbrev Flags := Nat → Bool

/-- flags of the dimensions after the first -/
def Flags.tl (bd : Flags) : Flags := fun d => bd (d + 1)

/-- the same flag in every dimension (`TrapezoidalGrid(a, b, boundary=flag)`) -/
def Flags.const (flag : Bool) : Flags := fun _ => flag

/-- `all(grid.boundary for grid in grids)` over the first `n` dimensions: the attribute `Grid.boundary` of a
`MixedGrid` / `TrapezoidalGrid` -/
def Flags.allOn (bd : Flags) : Nat → Bool
  | 0 => true
  | n + 1 => bd 0 && Flags.allOn bd.tl n

/-- the per-dimension coordinate arrays `Grid.coordinate_array` after `setCurrentArea(a, b, levelvec)` -/
def gridAxes : List Rat → List Rat → List Int → Flags → List (List Rat)
  | a :: as, b :: bs, l :: ls, bd => levelPoints a b l.toNat (bd 0) :: gridAxes as bs ls bd.tl
  | _, _, _, _ => []

/-- `Grid.weights` after `setCurrentArea(a, b, levelvec)` -/
def weightAxes : List Rat → List Rat → List Int → Flags → List (List Rat)
  | a :: as, b :: bs, l :: ls, bd => levelWeights a b l.toNat (bd 0) :: weightAxes as bs ls bd.tl
  | _, _, _, _ => []

/-- `Grid.getPoints()` = `StandardCombi.get_points_component_grid(levelvec)` -/
def gridPoints (a b : List Rat) (lv : List Int) (bd : Flags) : List (List Rat) := cross (gridAxes a b lv bd)

/-- `Grid.get_weights()`: `np.prod(get_cross_product_list(self.weights), axis=1)` -/
def gridWeights (a b : List Rat) (lv : List Int) (bd : Flags) : List Rat :=
  (cross (weightAxes a b lv bd)).map fun ws => ws.foldl (· * ·) 1

/-- `Grid.levelToNumPoints(levelvec)` -/
def gridNumPoints : List Int → Flags → List Nat
  | l :: ls, bd => levelNumPoints l.toNat (bd 0) :: gridNumPoints ls bd.tl
  | [], _ => []

/-- `StandardCombi.get_num_points_component_grid(levelvec, _)` = `np.prod(levelToNumPoints(levelvec))` -/
def gridNumPointsTotal (lv : List Int) (bd : Flags) : Nat := (gridNumPoints lv bd).foldl (· * ·) 1

/-- `IntegratorArbitraryGridScalarProduct.__call__`: `np.inner(f(points).T, weights)` -/
def quadGrid (a b : List Rat) (lv : List Int) (bd : Flags) (f : List Rat → Rat) : Rat :=
  (List.zipWith (fun p w => f p * w) (gridPoints a b lv bd) (gridWeights a b lv bd)).sum

def ratAbs (x : Rat) : Rat := if x < 0 then -x else x

/-- the nodal hat function of the level-`k` grid of `[a,b]` at node `i`: `max(0, 1 - |t - x_i| / h)`,
`h = (b-a)/2^k` (a test function of the harness, not part of the code under test) -/
def hatFn (a b : Rat) (k i : Nat) (t : Rat) : Rat :=
  let v := 1 - ratAbs (t - linPt a b (2 ^ k) i) / ((b - a) / ((2 ^ k : Nat) : Rat))
  if v < 0 then 0 else v

/-- `abs(x - e) <= 1e-12 * (b - a)`: `x` coincides with the end `e` of `[a,b]` up to a tolerance relative to the width -/
def nearEnd (x e a b : Rat) : Bool :=
  decide (ratAbs (x - e) ≤ 1 / 1000000000000 * (b - a))

/-- `np.any(np.logical_and(np.abs(points - e) <= tol, excluded))` for one point, `e` = the list of lower resp. upper
ends, `excluded[d] = not grids[d].boundary`: only the dimensions WITHOUT boundary points are tested -/
def anyNearOff : Flags → List Rat → List Rat → List Rat → List Rat → Bool
  | bd, x :: xs, e :: es, a :: as, b :: bs => (!bd 0 && nearEnd x e a b) || anyNearOff bd.tl xs es as bs
  | _, _, _, _, _ => false

/-- `Grid.points_not_zero` for one point: not on the excluded boundary, i.e. in no dimension without boundary points
within `tol = 1e-12 * (b - a)` of an end -/
def pointNotZero (a b : List Rat) (bd : Flags) (p : List Rat) : Bool :=
  !(anyNearOff bd p a a b || anyNearOff bd p b a b)

/-- `Integration.get_component_grid_values`: the function on the mesh, zero where `points_not_zero` is false -/
def meshVal (a b : List Rat) (bd : Flags) (f : List Rat → Rat) (p : List Rat) : Rat :=
  if pointNotZero a b bd p then f p else 0

/-- `Grid1d.coords_with_boundary`: with boundary points off, `[a] + coords + [b]` -/
def meshAxis (a b : Rat) (l : Nat) (bd : Bool) : List Rat :=
  if bd then levelPoints a b l bd else a :: (levelPoints a b l bd ++ [b])

/-- `Grid.coordinate_array_with_boundary` after `setCurrentArea(None, None, levelvec)` -/
def meshAxes : List Rat → List Rat → List Int → Flags → List (List Rat)
  | a :: as, b :: bs, l :: ls, bd => meshAxis a b l.toNat (bd 0) :: meshAxes as bs ls bd.tl
  | _, _, _, _ => []

/-- 1-D linear interpolation of `g` tabulated at the (sorted) nodes, in the first cell whose right end is
`≥ x` (the last cell beyond it) -/
def interp1 : List Rat → (Rat → Rat) → Rat → Rat
  | [], _, _ => 0
  | [n], g, _ => g n
  | n0 :: n1 :: rest, g, x =>
      if x ≤ n1 || rest.isEmpty then g n0 + (x - n0) / (n1 - n0) * (g n1 - g n0)
      else interp1 (n1 :: rest) g x

/-- multilinear interpolation = 1-D interpolation iterated along the axes
(`interpn(mesh, values, x, method='linear')`; lengths of `mesh` and `x` agree in every call of the model) -/
def interpN : List (List Rat) → (List Rat → Rat) → List Rat → Rat
  | [], f, [] => f []
  | ns :: rest, f, x :: xs => interp1 ns (fun t => interpN rest (fun y => f (t :: y)) xs) x
  | _, _, _ => 0

/-- scipy's bounds check: every coordinate within `[grid[0], grid[-1]]` -/
def inBounds : List (List Rat) → List Rat → Bool
  | [], [] => true
  | ns :: rest, x :: xs =>
      (match ns.head?, ns.getLast? with
       | some lo, some hi => decide (lo ≤ x) && decide (x ≤ hi)
       | _, _ => false) && inBounds rest xs
  | _, _ => false

/-- `GridOperation.interpolate_points_component_grid(component_grid, None, evaluation_points)` for one output
component; `none` = `ValueError` (a requested point is out of bounds) -/
def interpPoints? (a b : List Rat) (lv : List Int) (bd : Flags) (f : List Rat → Rat)
    (xs : List (List Rat)) : Option (List Rat) :=
  let mesh := meshAxes a b lv bd
  if xs.all (inBounds mesh) then some (xs.map (interpN mesh (meshVal a b bd f))) else none

end SparseSpace
