import SparseSpace.Model.DataSet
import Mathlib.Tactic.Ring
import Mathlib.Tactic.Linarith
import Mathlib.Tactic.FieldSimp
import Mathlib.Algebra.Order.Field.Rat
/-! Lemmas for C18, part 2: the scaling operations of `Model/DataSet` (range ends, reversal). -/
namespace SparseSpace.DSM

/-- all rows have `d` components -/
def Rect (d : Nat) (rows : List Row) : Prop := ∀ r ∈ rows, r.length = d

/-! ### column minima / maxima -/

theorem colFold_length (f : Rat → Rat → Rat) (d : Nat) :
    ∀ (rs : List Row) (acc : Row), acc.length = d → Rect d rs → (colFold f acc rs).length = d
  | [], acc, h, _ => by simpa [colFold] using h
  | r :: rs, acc, h, hr => by
    simp only [colFold]
    apply colFold_length f d rs
    · simp [h, hr r (by simp)]
    · exact fun x hx => hr x (by simp [hx])

/-- generic specification of `colFold f` for a selection function `f` (min or max) w.r.t. an order `le` -/
theorem colFold_spec (f : Rat → Rat → Rat) (le : Rat → Rat → Prop)
    (h1 : ∀ a x, le (f a x) a) (h2 : ∀ a x, le (f a x) x) (hch : ∀ a x, f a x = a ∨ f a x = x)
    (htr : ∀ a b c, le a b → le b c → le a c) (hrf : ∀ a, le a a) (k : Nat) :
    ∀ (rs : List Row) (acc : Row) (m : Rat), (colFold f acc rs)[k]? = some m →
      ∃ a, acc[k]? = some a ∧ le m a ∧ (∀ r ∈ rs, ∀ x, r[k]? = some x → le m x) ∧
        (m = a ∨ ∃ r ∈ rs, r[k]? = some m)
  | [], acc, m, h => ⟨m, by simpa [colFold] using h, hrf m, by simp, Or.inl rfl⟩
  | r :: rs, acc, m, h => by
    simp only [colFold] at h
    obtain ⟨a', ha', hle, hall, hatt⟩ := colFold_spec f le h1 h2 hch htr hrf k rs _ m h
    rw [List.getElem?_zipWith] at ha'
    cases hacc : acc[k]? with
    | none => simp [hacc] at ha'
    | some a =>
      cases hr : r[k]? with
      | none => simp [hacc, hr] at ha'
      | some x =>
        simp only [hacc, hr, Option.some.injEq] at ha'
        subst ha'
        refine ⟨a, rfl, htr _ _ _ hle (h1 a x), ?_, ?_⟩
        · intro r' hr' y hy
          rcases List.mem_cons.mp hr' with h' | h'
          · subst h'
            rw [hr] at hy; cases hy
            exact htr _ _ _ hle (h2 a x)
          · exact hall r' h' y hy
        · rcases hatt with h' | ⟨r', hr', h'⟩
          · rcases hch a x with hc | hc
            · exact Or.inl (h'.trans hc)
            · exact Or.inr ⟨r, by simp, by rw [hr, h', hc]⟩
          · exact Or.inr ⟨r', by simp [hr'], h'⟩

/-- `colMins`: of length `d`; each entry is a lower bound of its column and is attained -/
theorem colMins_spec {d : Nat} {rows : List Row} (hne : rows ≠ []) (hrect : Rect d rows) :
    ∃ mn, colMins rows = some mn ∧ mn.length = d ∧
      ∀ (k : Nat) (m : Rat), mn[k]? = some m → (∀ r ∈ rows, ∀ x, r[k]? = some x → m ≤ x) ∧ ∃ r ∈ rows, r[k]? = some m := by
  cases rows with
  | nil => exact absurd rfl hne
  | cons r0 rs =>
    refine ⟨colFold min r0 rs, rfl, ?_, ?_⟩
    · exact colFold_length min d rs r0 (hrect r0 (by simp)) (fun x hx => hrect x (by simp [hx]))
    · intro k m hm
      obtain ⟨a, ha, hle, hall, hatt⟩ := colFold_spec min (· ≤ ·) (fun a x => min_le_left a x) (fun a x => min_le_right a x)
        (fun a x => min_choice a x) (fun a b c => le_trans) (fun a => le_refl a) k rs r0 m hm
      refine ⟨?_, ?_⟩
      · intro r hr x hx
        rcases List.mem_cons.mp hr with h | h
        · subst h; rw [ha] at hx; cases hx; exact hle
        · exact hall r h x hx
      · rcases hatt with h | ⟨r, hr, h⟩
        · exact ⟨r0, by simp, by rw [ha, h]⟩
        · exact ⟨r, by simp [hr], h⟩

theorem colMaxs_spec {d : Nat} {rows : List Row} (hne : rows ≠ []) (hrect : Rect d rows) :
    ∃ mx, colMaxs rows = some mx ∧ mx.length = d ∧
      ∀ (k : Nat) (m : Rat), mx[k]? = some m → (∀ r ∈ rows, ∀ x, r[k]? = some x → x ≤ m) ∧ ∃ r ∈ rows, r[k]? = some m := by
  cases rows with
  | nil => exact absurd rfl hne
  | cons r0 rs =>
    refine ⟨colFold max r0 rs, rfl, ?_, ?_⟩
    · exact colFold_length max d rs r0 (hrect r0 (by simp)) (fun x hx => hrect x (by simp [hx]))
    · intro k m hm
      obtain ⟨a, ha, hle, hall, hatt⟩ := colFold_spec max (· ≥ ·) (fun a x => le_max_left a x) (fun a x => le_max_right a x)
        (fun a x => max_choice a x) (fun a b c hab hbc => le_trans hbc hab) (fun a => le_refl a) k rs r0 m hm
      refine ⟨?_, ?_⟩
      · intro r hr x hx
        rcases List.mem_cons.mp hr with h | h
        · subst h; rw [ha] at hx; cases hx; exact hle
        · exact hall r h x hx
      · rcases hatt with h | ⟨r, hr, h⟩
        · exact ⟨r0, by simp, by rw [ha, h]⟩
        · exact ⟨r, by simp [hr], h⟩

/-! ### `scale_range` -/

/-- the per-entry arithmetic of the min–max map: `x ↦ x * scale + (lo - a * scale)`, `scale = (hi-lo)/hz(b-a)` -/
theorem mm_entry (lo hi a b x : Rat) (hlt : lo < hi) (hax : a ≤ x) (hxb : x ≤ b) :
    lo ≤ x * ((hi - lo) / handleZero (b - a)) + (lo - a * ((hi - lo) / handleZero (b - a))) ∧
    x * ((hi - lo) / handleZero (b - a)) + (lo - a * ((hi - lo) / handleZero (b - a))) ≤ hi ∧
    (x = a → x * ((hi - lo) / handleZero (b - a)) + (lo - a * ((hi - lo) / handleZero (b - a))) = lo) ∧
    (x = b → a ≠ b → x * ((hi - lo) / handleZero (b - a)) + (lo - a * ((hi - lo) / handleZero (b - a))) = hi) ∧
    (a = b → x * ((hi - lo) / handleZero (b - a)) + (lo - a * ((hi - lo) / handleZero (b - a))) = lo) := by
  have key : ∀ sc : Rat, x * sc + (lo - a * sc) = lo + (x - a) * sc := fun sc => by ring
  rw [key]
  by_cases hab : a = b
  · have hxa : x = a := le_antisymm (hab ▸ hxb) hax
    subst hxa
    refine ⟨by simp, by simp; exact le_of_lt hlt, fun _ => by simp, fun _ h => absurd hab h, fun _ => by simp⟩
  · have hpos : 0 < b - a := by
      have : a ≤ b := le_trans hax hxb
      exact sub_pos.mpr (lt_of_le_of_ne this hab)
    have hz : handleZero (b - a) = b - a := by
      unfold handleZero; rw [if_neg (ne_of_gt hpos)]
    rw [hz]
    have hsc : 0 < (hi - lo) / (b - a) := div_pos (sub_pos.mpr hlt) hpos
    have hfull : (b - a) * ((hi - lo) / (b - a)) = hi - lo := by field_simp
    refine ⟨?_, ?_, ?_, ?_, ?_⟩
    · have : 0 ≤ (x - a) * ((hi - lo) / (b - a)) := mul_nonneg (sub_nonneg.mpr hax) (le_of_lt hsc)
      linarith
    · have : (x - a) * ((hi - lo) / (b - a)) ≤ (b - a) * ((hi - lo) / (b - a)) :=
        mul_le_mul_of_nonneg_right (by linarith) (le_of_lt hsc)
      linarith
    · intro h; rw [h]; simp
    · intro h _; rw [h, hfull]; ring
    · intro h; exact absurd h hab

/-- whenever the data is rescaled, the new samples are the min–max images of the old ones (labels untouched) -/
theorem scaleRange_samples {s : DS} {lo hi : Rat} {ov : Bool} {mn mx : Row} (hlt : lo < hi)
    (hmn : colMins s.rows = some mn) (hmx : colMaxs s.rows = some mx) :
    (scaleRange s lo hi ov).1.samples =
      s.samples.map (fun p => (mmRow (mmScale lo hi mn mx) (mmOff lo mn (mmScale lo hi mn mx)) p.1, p.2)) := by
  unfold scaleRange
  rw [if_neg (not_not.mpr hlt), hmn, hmx]
  simp only
  split
  · rfl
  · split
    · split <;> rfl
    · rfl

theorem scaleRange_error_none {s : DS} {lo hi : Rat} {ov : Bool} {mn mx : Row} (hlt : lo < hi)
    (hmn : colMins s.rows = some mn) (hmx : colMaxs s.rows = some mx)
    (hf : s.scaled = false ∨ ov = true ∨ (s.factor.isSome ∧ s.offset.isSome)) : (scaleRange s lo hi ov).2 = none := by
  unfold scaleRange
  rw [if_neg (not_not.mpr hlt), hmn, hmx]
  simp only
  split
  · rfl
  · next hn =>
    cases hfac : s.factor with
    | some f =>
      cases hoff : s.offset with
      | some b => rfl
      | none =>
        exfalso
        rcases hf with h | h | h
        · simp [h] at hn
        · simp [h] at hn
        · simp [hoff] at h
    | none =>
      exfalso
      rcases hf with h | h | h
      · simp [h] at hn
      · simp [h] at hn
      · simp [hfac] at h

/-- entry `k` of the image of a row under the min–max map -/
theorem mmRow_entry {lo hi : Rat} {mn mx r : Row} {k : Nat} {a b x : Rat}
    (ha : mn[k]? = some a) (hb : mx[k]? = some b) (hx : r[k]? = some x) :
    (mmRow (mmScale lo hi mn mx) (mmOff lo mn (mmScale lo hi mn mx)) r)[k]? =
      some (x * ((hi - lo) / handleZero (b - a)) + (lo - a * ((hi - lo) / handleZero (b - a)))) := by
  simp [mmRow, mmScale, mmOff, List.getElem?_zipWith, ha, hb, hx]

/-! ### rows under per-dimension affine maps -/

/-- a factor / shift argument as a per-dimension vector -/
def Fac.toVec (f : Fac) (d : Nat) : Row :=
  match f with
  | .scalar q => List.replicate d q
  | .vec v => v

def Fac.nonzero : Fac → Prop
  | .scalar q => q ≠ 0
  | .vec v => ∀ x ∈ v, x ≠ 0

theorem Fac.toVec_length {f : Fac} {d : Nat} (h : f.fits d = true) : (f.toVec d).length = d := by
  cases f with
  | scalar q => simp [Fac.toVec]
  | vec v => simpa [Fac.toVec, Fac.fits] using h

theorem mmRow_length {A B r : Row} {d : Nat} (hA : A.length = d) (hB : B.length = d) (hr : r.length = d) :
    (mmRow A B r).length = d := by simp [mmRow, hA, hB, hr]

theorem mulRow_eq {f : Fac} {r : Row} {d : Nat} (hf : f.fits d = true) (hr : r.length = d) :
    f.mulRow r = mmRow (f.toVec d) (List.replicate d 0) r := by
  cases f with
  | scalar q =>
    apply List.ext_getElem
    · simp [Fac.mulRow, mmRow, Fac.toVec, hr]
    · intro i h1 h2; simp [Fac.mulRow, mmRow, Fac.toVec]
  | vec v =>
    have hv : v.length = d := by simpa [Fac.fits] using hf
    apply List.ext_getElem
    · simp [Fac.mulRow, mmRow, Fac.toVec, hr, hv]
    · intro i h1 h2; simp [Fac.mulRow, mmRow, Fac.toVec]

theorem addRow_eq {f : Fac} {r : Row} {d : Nat} (hf : f.fits d = true) (hr : r.length = d) :
    f.addRow r = mmRow (List.replicate d 1) (f.toVec d) r := by
  cases f with
  | scalar q =>
    apply List.ext_getElem
    · simp [Fac.addRow, mmRow, Fac.toVec, hr]
    · intro i h1 h2; simp [Fac.addRow, mmRow, Fac.toVec]
  | vec v =>
    have hv : v.length = d := by simpa [Fac.fits] using hf
    apply List.ext_getElem
    · simp [Fac.addRow, mmRow, Fac.toVec, hr, hv]
    · intro i h1 h2; simp [Fac.addRow, mmRow, Fac.toVec]

theorem mmRow_comp {A1 B1 A2 B2 r : Row} {d : Nat} (hA1 : A1.length = d) (hB1 : B1.length = d)
    (hA2 : A2.length = d) (hB2 : B2.length = d) (hr : r.length = d) :
    mmRow A2 B2 (mmRow A1 B1 r) =
      mmRow (List.zipWith (· * ·) A1 A2) (List.zipWith (· + ·) (List.zipWith (· * ·) B1 A2) B2) r := by
  apply List.ext_getElem
  · simp [mmRow, hA1, hB1, hA2, hB2, hr]
  · intro i h1 h2
    simp only [mmRow, List.getElem_zipWith]
    ring

theorem mmRow_id {r : Row} {d : Nat} (hr : r.length = d) : mmRow (List.replicate d 1) (List.replicate d 0) r = r := by
  apply List.ext_getElem
  · simp [mmRow, hr]
  · intro i h1 h2; simp [mmRow]

/-- column minima commute with a per-dimension shift -/
theorem colFold_min_shift {d : Nat} {C : Row} (hC : C.length = d) :
    ∀ (rs : List Row) (acc : Row), acc.length = d → Rect d rs →
      colFold min (List.zipWith (· + ·) acc C) (rs.map (fun r => List.zipWith (· + ·) r C)) =
        List.zipWith (· + ·) (colFold min acc rs) C
  | [], acc, _, _ => by simp [colFold]
  | r :: rs, acc, hacc, hr => by
    have hrl : r.length = d := hr r (by simp)
    simp only [List.map_cons, colFold]
    have : List.zipWith min (List.zipWith (· + ·) acc C) (List.zipWith (· + ·) r C) =
        List.zipWith (· + ·) (List.zipWith min acc r) C := by
      apply List.ext_getElem
      · simp [hacc, hrl, hC]
      · intro i h1 h2
        simp only [List.getElem_zipWith]
        exact min_add_add_right _ _ _
    rw [this]
    exact colFold_min_shift hC rs _ (by simp [hacc, hrl]) (fun x hx => hr x (by simp [hx]))

theorem colMins_shift {d : Nat} {C : Row} {rows : List Row} (hC : C.length = d) (hrect : Rect d rows) :
    colMins (rows.map (fun r => List.zipWith (· + ·) r C)) = (colMins rows).map (fun m => List.zipWith (· + ·) m C) := by
  cases rows with
  | nil => rfl
  | cons r0 rs =>
    simp only [List.map_cons, colMins, Option.map_some]
    rw [colFold_min_shift hC rs r0 (hrect r0 (by simp)) (fun x hx => hrect x (by simp [hx]))]

theorem mmRow_one {C r : Row} {d : Nat} (hC : C.length = d) (hr : r.length = d) :
    mmRow (List.replicate d 1) C r = List.zipWith (· + ·) r C := by
  apply List.ext_getElem
  · simp [mmRow, hr, hC]
  · intro i h1 h2; simp [mmRow]

/-! ### `scale_factor` / `shift_value` in their two paths -/

theorem colMins_isSome_of_ne {rows : List Row} (h : rows ≠ []) : ∃ m, colMins rows = some m := by
  cases rows with
  | nil => exact absurd rfl h
  | cons r rs => exact ⟨_, rfl⟩

theorem colMaxs_isSome_of_ne {rows : List Row} (h : rows ≠ []) : ∃ m, colMaxs rows = some m := by
  cases rows with
  | nil => exact absurd rfl h
  | cons r rs => exact ⟨_, rfl⟩

/-- first scaling (not yet scaled, or overriding) of a non-empty set by a fitting argument -/
theorem facShift_first (s : DS) (shift : Bool) (f : Fac) (ov : Bool) (d : Nat)
    (h : s.scaled = false ∨ ov = true) (hne : s.samples ≠ []) (hrect : Rect d s.rows) (hfit : f.fits d = true) :
    ∃ mn mx, facShift s shift f ov =
      ({ s with omin := colMins s.rows, omax := colMaxs s.rows,
                samples := s.samples.map (fun p => ((if shift then f.addRow else f.mulRow) p.1, p.2)),
                range := some (.arrs mn mx), factor := some (if shift then .scalar 1 else f),
                offset := some (if shift then f else .scalar 0), scaled := true }, none) := by
  have hcond : (!s.scaled || ov) = true := by
    rcases h with h | h <;> simp [h]
  cases hs : s.samples with
  | nil => exact absurd hs hne
  | cons p t =>
    obtain ⟨r0, l0⟩ := p
    have hr0 : r0.length = d := hrect r0 (by simp [DS.rows, hs])
    have hne' : ((s.samples.map fun p => ((if shift then f.addRow else f.mulRow) p.1, p.2)).map (·.1)) ≠ [] := by
      simp [hs]
    obtain ⟨mn, hmn⟩ := colMins_isSome_of_ne hne'
    obtain ⟨mx, hmx⟩ := colMaxs_isSome_of_ne hne'
    refine ⟨mn, mx, ?_⟩
    unfold facShift
    simp only [hcond, if_true]
    rw [hs] at hmn hmx ⊢
    simp only [hr0, hfit, Bool.not_true, Bool.false_eq_true, if_false]
    rw [hmn, hmx]

/-- a further, non-overriding scaling of a scaled non-empty set -/
theorem facShift_further (s : DS) (shift : Bool) (f g b : Fac)
    (hsc : s.scaled = true) (hne : s.samples ≠ []) (hfit : f.fits s.dim = true) (hg : s.factor = some g)
    (hb : s.offset = some b) :
    ∃ mn mx, facShift s shift f false =
      ({ s with samples := s.samples.map (fun p => ((if shift then f.addRow else f.mulRow) p.1, p.2)),
                range := some (.arrs mn mx), factor := some (if shift then g else g.mul f),
                offset := some (if shift then b.add f else b.mul f) }, none) := by
  cases hs : s.samples with
  | nil => exact absurd hs hne
  | cons p t =>
    have hne' : ((s.samples.map fun p => ((if shift then f.addRow else f.mulRow) p.1, p.2)).map (·.1)) ≠ [] := by
      simp [hs]
    obtain ⟨mn, hmn⟩ := colMins_isSome_of_ne hne'
    obtain ⟨mx, hmx⟩ := colMaxs_isSome_of_ne hne'
    refine ⟨mn, mx, ?_⟩
    unfold facShift
    simp only [hsc, Bool.not_true, Bool.or_false, Bool.false_eq_true, if_false, hfit]
    rw [hs] at hmn hmx ⊢
    simp only
    rw [hmn, hmx]
    cases shift with
    | true => simp [hg, hb]
    | false => simp [hg, hb]

/-! ### `scale_range` in its two paths -/

theorem scaleRange_first {s : DS} {lo hi : Rat} {ov : Bool} {mn mx : Row} (hlt : lo < hi)
    (hmn : colMins s.rows = some mn) (hmx : colMaxs s.rows = some mx) (h : s.scaled = false ∨ ov = true) :
    scaleRange s lo hi ov =
      ({ s with samples := s.samples.map (fun p => (mmRow (mmScale lo hi mn mx) (mmOff lo mn (mmScale lo hi mn mx)) p.1, p.2)),
                scaled := true, range := some (.pair lo hi), factor := some (.vec (mmScale lo hi mn mx)),
                offset := some (.vec (mmOff lo mn (mmScale lo hi mn mx))), omin := some mn, omax := some mx }, none) := by
  have hcond : (!s.scaled || ov) = true := by
    rcases h with h | h <;> simp [h]
  unfold scaleRange
  rw [if_neg (not_not.mpr hlt), hmn, hmx]
  simp only [hcond, if_true]

theorem scaleRange_further {s : DS} {lo hi : Rat} {mn mx : Row} {g b : Fac} (hlt : lo < hi)
    (hmn : colMins s.rows = some mn) (hmx : colMaxs s.rows = some mx) (hsc : s.scaled = true) (hg : s.factor = some g)
    (hb : s.offset = some b) :
    scaleRange s lo hi false =
      ({ s with samples := s.samples.map (fun p => (mmRow (mmScale lo hi mn mx) (mmOff lo mn (mmScale lo hi mn mx)) p.1, p.2)),
                range := some (.pair lo hi), factor := some (g.mul (.vec (mmScale lo hi mn mx))),
                offset := some ((b.mul (.vec (mmScale lo hi mn mx))).add (.vec (mmOff lo mn (mmScale lo hi mn mx)))) }, none) := by
  unfold scaleRange
  rw [if_neg (not_not.mpr hlt), hmn, hmx]
  simp only [hsc, Bool.not_true, Bool.or_false, Bool.false_eq_true, if_false, hg, hb]

theorem mmScale_length {lo hi : Rat} {mn mx : Row} {d : Nat} (h1 : mn.length = d) (h2 : mx.length = d) :
    (mmScale lo hi mn mx).length = d := by simp [mmScale, h1, h2]

theorem mmScale_nonzero {lo hi : Rat} {mn mx : Row} (hlt : lo < hi) : ∀ x ∈ mmScale lo hi mn mx, x ≠ 0 := by
  intro x hx
  obtain ⟨i, hi', hxi⟩ := List.mem_iff_getElem.mp hx
  simp only [mmScale, List.getElem_zipWith] at hxi
  rw [← hxi]
  apply div_ne_zero
  · exact sub_ne_zero.mpr (ne_of_gt hlt)
  · unfold handleZero
    split
    · exact one_ne_zero
    · assumption

/-! ### products of factors -/

theorem Fac.mul_spec {f g : Fac} {d : Nat} (hf : f.fits d = true) (hg : g.fits d = true) :
    (f.mul g).toVec d = List.zipWith (· * ·) (f.toVec d) (g.toVec d) ∧ (f.mul g).fits d = true ∧
    (f.nonzero → g.nonzero → (f.mul g).nonzero) := by
  cases f with
  | scalar a =>
    cases g with
    | scalar b =>
      refine ⟨?_, rfl, fun h1 h2 => mul_ne_zero h1 h2⟩
      apply List.ext_getElem
      · simp [Fac.mul, Fac.toVec]
      · intro i h1 h2; simp [Fac.mul, Fac.toVec]
    | vec w =>
      have hw : w.length = d := by simpa [Fac.fits] using hg
      refine ⟨?_, by simp [Fac.mul, Fac.fits, hw], ?_⟩
      · apply List.ext_getElem
        · simp [Fac.mul, Fac.toVec, hw]
        · intro i h1 h2; simp [Fac.mul, Fac.toVec]
      · intro h1 h2 x hx
        simp only [List.mem_map] at hx
        obtain ⟨y, hy, rfl⟩ := hx
        exact mul_ne_zero h1 (h2 y hy)
  | vec v =>
    have hv : v.length = d := by simpa [Fac.fits] using hf
    cases g with
    | scalar b =>
      refine ⟨?_, by simp [Fac.mul, Fac.fits, hv], ?_⟩
      · apply List.ext_getElem
        · simp [Fac.mul, Fac.toVec, hv]
        · intro i h1 h2; simp [Fac.mul, Fac.toVec]
      · intro h1 h2 x hx
        simp only [List.mem_map] at hx
        obtain ⟨y, hy, rfl⟩ := hx
        exact mul_ne_zero (h1 y hy) h2
    | vec w =>
      have hw : w.length = d := by simpa [Fac.fits] using hg
      refine ⟨rfl, by simp [Fac.mul, Fac.fits, hv, hw], ?_⟩
      intro h1 h2 x hx
      obtain ⟨i, hi', hxi⟩ := List.mem_iff_getElem.mp hx
      simp only [List.getElem_zipWith] at hxi
      rw [← hxi]
      exact mul_ne_zero (h1 _ (List.getElem_mem _)) (h2 _ (List.getElem_mem _))

theorem Fac.add_spec {f g : Fac} {d : Nat} (hf : f.fits d = true) (hg : g.fits d = true) :
    (f.add g).toVec d = List.zipWith (· + ·) (f.toVec d) (g.toVec d) ∧ (f.add g).fits d = true := by
  cases f with
  | scalar a =>
    cases g with
    | scalar b =>
      refine ⟨?_, rfl⟩
      apply List.ext_getElem
      · simp [Fac.add, Fac.toVec]
      · intro i h1 h2; simp [Fac.add, Fac.toVec]
    | vec w =>
      have hw : w.length = d := by simpa [Fac.fits] using hg
      refine ⟨?_, by simp [Fac.add, Fac.fits, hw]⟩
      apply List.ext_getElem
      · simp [Fac.add, Fac.toVec, hw]
      · intro i h1 h2; simp [Fac.add, Fac.toVec]
  | vec v =>
    have hv : v.length = d := by simpa [Fac.fits] using hf
    cases g with
    | scalar b =>
      refine ⟨?_, by simp [Fac.add, Fac.fits, hv]⟩
      apply List.ext_getElem
      · simp [Fac.add, Fac.toVec, hv]
      · intro i h1 h2; simp [Fac.add, Fac.toVec]
    | vec w =>
      have hw : w.length = d := by simpa [Fac.fits] using hg
      exact ⟨rfl, by simp [Fac.add, Fac.fits, hv, hw]⟩

/-- `-(b / f)` as a per-dimension vector -/
theorem Fac.negDiv_spec {b f : Fac} {d : Nat} (hb : b.fits d = true) (hf : f.fits d = true) :
    (b.negDiv f).toVec d = List.zipWith (fun x y => -(x / y)) (b.toVec d) (f.toVec d) ∧ (b.negDiv f).fits d = true := by
  cases b with
  | scalar a =>
    cases f with
    | scalar q =>
      refine ⟨?_, rfl⟩
      apply List.ext_getElem
      · simp [Fac.negDiv, Fac.toVec]
      · intro i h1 h2; simp [Fac.negDiv, Fac.toVec]
    | vec v =>
      have hv : v.length = d := by simpa [Fac.fits] using hf
      refine ⟨?_, by simp [Fac.negDiv, Fac.fits, hv]⟩
      apply List.ext_getElem
      · simp [Fac.negDiv, Fac.toVec, hv]
      · intro i h1 h2; simp [Fac.negDiv, Fac.toVec]
  | vec w =>
    have hw : w.length = d := by simpa [Fac.fits] using hb
    cases f with
    | scalar q =>
      refine ⟨?_, by simp [Fac.negDiv, Fac.fits, hw]⟩
      apply List.ext_getElem
      · simp [Fac.negDiv, Fac.toVec, hw]
      · intro i h1 h2; simp [Fac.negDiv, Fac.toVec]
    | vec v =>
      have hv : v.length = d := by simpa [Fac.fits] using hf
      exact ⟨rfl, by simp [Fac.negDiv, Fac.fits, hv, hw]⟩

theorem Fac.toVec_nonzero {f : Fac} {d : Nat} (h : f.nonzero) : ∀ x ∈ f.toVec d, x ≠ 0 := by
  cases f with
  | scalar q =>
    intro x hx
    simp only [Fac.toVec, List.mem_replicate] at hx
    rw [hx.2]; exact h
  | vec v => exact h

theorem Fac.inv_spec {f : Fac} {d : Nat} (hf : f.fits d = true) (hn : f.nonzero) :
    ∃ fi, f.inv = .ok fi ∧ fi.fits d = true ∧ fi.toVec d = (f.toVec d).map (1 / ·) := by
  cases f with
  | scalar q =>
    refine ⟨.scalar (1 / q), by simp [Fac.inv, show q ≠ 0 from hn], rfl, ?_⟩
    simp [Fac.toVec]
  | vec v =>
    have hv : v.length = d := by simpa [Fac.fits] using hf
    have hany : v.any (· == 0) = false := by
      rw [Bool.eq_false_iff]
      intro h
      obtain ⟨x, hx, hx0⟩ := List.any_eq_true.mp h
      exact hn x hx (by simpa using hx0)
    exact ⟨.vec (v.map (1 / ·)), by simp [Fac.inv, hany], by simp [Fac.fits, hv], rfl⟩

end SparseSpace.DSM
