import SparseSpace.Lemmas.DataSetScale
/-! Lemmas for C18, part 3: `revert_scaling` undoes every sequence of non-overriding scalings. -/
namespace SparseSpace.DSM

/-- the three scaling operations -/
inductive ScOp where
  | range (lo hi : Rat)
  | factor (f : Fac)
  | shift (v : Fac)

/-- run one scaling operation of the model -/
def ScOp.apply (s : DS) (ov : Bool) : ScOp → DS × Option Err
  | .range lo hi => scaleRange s lo hi ov
  | .factor f => scaleFactor s f ov
  | .shift v => shiftValue s v ov

/-- admissible arguments for data of dimension `d`: a proper range, a non-zero factor, arguments of the right length -/
def ScOp.Valid (d : Nat) : ScOp → Prop
  | .range lo hi => lo < hi
  | .factor f => f.fits d = true ∧ f.nonzero
  | .shift v => v.fits d = true

/-- the samples of `s` are the images of the samples `orig` under the per-dimension affine map `x ↦ F·x + B` whose
    linear part is the (non-zero) scaling factor and whose additive part is the scaling offset the object keeps -/
structure ImageOf (orig : List Sample) (s : DS) (d : Nat) : Prop where
  scaled : s.scaled = true
  dim : s.dim = d
  rep : ∃ f b, s.factor = some f ∧ s.offset = some b ∧ f.fits d = true ∧ b.fits d = true ∧ f.nonzero ∧
        s.samples = orig.map (fun p => (mmRow (f.toVec d) (b.toVec d) p.1, p.2))

/-- `s` is `s0` after a first scaling and any number of further scalings -/
structure ScaledFrom (s0 s : DS) (d : Nat) : Prop where
  img : ImageOf s0.samples s d
  omin : s.omin = colMins s0.rows
  shuffled : s.shuffled = s0.shuffled
  flat : s.flat = s0.flat

theorem rect_of_samples {s : DS} {d : Nat} (h : Rect d s.rows) : ∀ p ∈ s.samples, p.1.length = d :=
  fun p hp => h p.1 (List.mem_map.mpr ⟨p, hp, rfl⟩)

theorem zipWith_mul_one {A : Row} {d : Nat} (hA : A.length = d) : List.zipWith (· * ·) A (List.replicate d 1) = A := by
  apply List.ext_getElem
  · simp [hA]
  · intro i h1 h2; simp

theorem zipWith_add_zero {A : Row} {d : Nat} (hA : A.length = d) : List.zipWith (· + ·) A (List.replicate d 0) = A := by
  apply List.ext_getElem
  · simp [hA]
  · intro i h1 h2; simp

theorem map_congr_mem {α β : Type} {f g : α → β} {l : List α} (h : ∀ a ∈ l, f a = g a) : l.map f = l.map g :=
  List.map_congr_left h

/-- the first scaling (of an unscaled set, or an overriding one) -/
theorem first_establishes {s0 : DS} {d : Nat} {op : ScOp} {ov : Bool}
    (hne : s0.samples ≠ []) (hrect : Rect d s0.rows) (hdim : s0.dim = d) (hv : op.Valid d)
    (hfirst : s0.scaled = false ∨ ov = true) :
    (op.apply s0 ov).2 = none ∧ ScaledFrom s0 (op.apply s0 ov).1 d := by
  have hrne : s0.rows ≠ [] := by simpa [DS.rows] using hne
  have hlen := rect_of_samples hrect
  cases op with
  | range lo hi =>
    obtain ⟨mn, hmn, hmnl, _⟩ := colMins_spec hrne hrect
    obtain ⟨mx, hmx, hmxl, _⟩ := colMaxs_spec hrne hrect
    have := scaleRange_first (lo := lo) (hi := hi) (ov := ov) hv hmn hmx hfirst
    simp only [ScOp.apply, this]
    refine ⟨trivial, ⟨⟨rfl, hdim, ?_⟩, hmn.symm, rfl, rfl⟩⟩
    exact ⟨.vec (mmScale lo hi mn mx), .vec (mmOff lo mn (mmScale lo hi mn mx)), rfl, rfl,
      by simp [Fac.fits, mmScale_length hmnl hmxl], by simp [Fac.fits, mmOff, hmnl, mmScale_length hmnl hmxl],
      mmScale_nonzero hv, rfl⟩
  | factor f =>
    obtain ⟨mn, mx, h⟩ := facShift_first s0 false f ov d hfirst hne hrect hv.1
    simp only [ScOp.apply, scaleFactor, h]
    refine ⟨trivial, ⟨⟨rfl, hdim, ?_⟩, rfl, rfl, rfl⟩⟩
    refine ⟨f, .scalar 0, rfl, rfl, hv.1, rfl, hv.2, ?_⟩
    apply map_congr_mem
    intro p hp
    simp [mulRow_eq hv.1 (hlen p hp), Fac.toVec]
  | shift v =>
    obtain ⟨mn, mx, h⟩ := facShift_first s0 true v ov d hfirst hne hrect hv
    simp only [ScOp.apply, shiftValue, h]
    refine ⟨trivial, ⟨⟨rfl, hdim, ?_⟩, rfl, rfl, rfl⟩⟩
    refine ⟨.scalar 1, v, rfl, rfl, rfl, hv, one_ne_zero, ?_⟩
    apply map_congr_mem
    intro p hp
    simp [addRow_eq hv (hlen p hp), Fac.toVec]

theorem ImageOf.samples_ne {orig : List Sample} {s : DS} {d : Nat} (h : ImageOf orig s d) (hne : orig ≠ []) :
    s.samples ≠ [] := by
  obtain ⟨f, b, _, _, _, _, _, hs⟩ := h.rep
  rw [hs]; simpa using hne

theorem ImageOf.rect {orig : List Sample} {s : DS} {d : Nat} (h : ImageOf orig s d)
    (hlen : ∀ p ∈ orig, p.1.length = d) : Rect d s.rows := by
  obtain ⟨f, b, _, _, hfit, hbfit, _, hs⟩ := h.rep
  intro r hr
  simp only [DS.rows, hs, List.map_map, List.mem_map, Function.comp] at hr
  obtain ⟨p, hp, rfl⟩ := hr
  exact mmRow_length (Fac.toVec_length hfit) (Fac.toVec_length hbfit) (hlen p hp)

/-- a further non-overriding scaling keeps the image relation (with the composed affine map) -/
theorem image_step {orig : List Sample} {s : DS} {d : Nat} {op : ScOp}
    (hne : orig ≠ []) (hlen : ∀ p ∈ orig, p.1.length = d) (h : ImageOf orig s d) (hv : op.Valid d) :
    (op.apply s false).2 = none ∧ ImageOf orig (op.apply s false).1 d ∧
    (op.apply s false).1.omin = s.omin ∧ (op.apply s false).1.shuffled = s.shuffled ∧ (op.apply s false).1.flat = s.flat := by
  have hsne := h.samples_ne hne
  have hsrect := h.rect hlen
  obtain ⟨f, b, hfac, hoff, hfit, hbfit, hnz, hs⟩ := h.rep
  have hA := Fac.toVec_length hfit
  have hB := Fac.toVec_length hbfit
  cases op with
  | range lo hi =>
    have hrne : s.rows ≠ [] := by simpa [DS.rows] using hsne
    obtain ⟨mn, hmn, hmnl, _⟩ := colMins_spec hrne hsrect
    obtain ⟨mx, hmx, hmxl, _⟩ := colMaxs_spec hrne hsrect
    have hsl := mmScale_length (lo := lo) (hi := hi) hmnl hmxl
    have hol : (mmOff lo mn (mmScale lo hi mn mx)).length = d := by simp [mmOff, hmnl, hsl]
    have hvf : (Fac.vec (mmScale lo hi mn mx)).fits d = true := by simp [Fac.fits, hsl]
    have hof : (Fac.vec (mmOff lo mn (mmScale lo hi mn mx))).fits d = true := by simp [Fac.fits, hol]
    have := scaleRange_further (lo := lo) (hi := hi) hv hmn hmx h.scaled hfac hoff
    simp only [ScOp.apply, this]
    obtain ⟨hmv, hmf, hmn0⟩ := Fac.mul_spec hfit hvf
    obtain ⟨hbv, hbf, _⟩ := Fac.mul_spec hbfit hvf
    obtain ⟨hav, haf⟩ := Fac.add_spec hbf hof
    refine ⟨trivial, ⟨h.scaled, h.dim, ?_⟩, by first | rfl | trivial, by first | rfl | trivial, by first | rfl | trivial⟩
    refine ⟨_, _, rfl, rfl, hmf, haf, hmn0 hnz (mmScale_nonzero hv), ?_⟩
    simp only [hs, List.map_map]
    apply map_congr_mem
    intro p hp
    simp only [Function.comp]
    rw [mmRow_comp hA hB hsl hol (hlen p hp), hmv, hav, hbv]
    rfl
  | factor g =>
    obtain ⟨mn, mx, hfs⟩ := facShift_further s false g f b h.scaled hsne (by rw [h.dim]; exact hv.1) hfac hoff
    simp only [ScOp.apply, scaleFactor, hfs]
    obtain ⟨hmv, hmf, hmn0⟩ := Fac.mul_spec hfit hv.1
    obtain ⟨hbv, hbf, _⟩ := Fac.mul_spec hbfit hv.1
    refine ⟨trivial, ⟨h.scaled, h.dim, ?_⟩, by first | rfl | trivial, by first | rfl | trivial, by first | rfl | trivial⟩
    refine ⟨f.mul g, b.mul g, rfl, rfl, hmf, hbf, hmn0 hnz hv.2, ?_⟩
    simp only [hs, List.map_map]
    apply map_congr_mem
    intro p hp
    simp only [Function.comp, Bool.false_eq_true, if_false]
    rw [mulRow_eq hv.1 (mmRow_length hA hB (hlen p hp)),
      mmRow_comp hA hB (Fac.toVec_length hv.1) (by simp) (hlen p hp), hmv, hbv,
      zipWith_add_zero (by simp [hB, Fac.toVec_length hv.1])]
  | shift v =>
    obtain ⟨mn, mx, hfs⟩ := facShift_further s true v f b h.scaled hsne (by rw [h.dim]; exact hv) hfac hoff
    simp only [ScOp.apply, shiftValue, hfs]
    obtain ⟨hav, haf⟩ := Fac.add_spec hbfit hv
    refine ⟨trivial, ⟨h.scaled, h.dim, ?_⟩, by first | rfl | trivial, by first | rfl | trivial, by first | rfl | trivial⟩
    refine ⟨f, b.add v, rfl, rfl, hfit, haf, hnz, ?_⟩
    simp only [hs, List.map_map]
    apply map_congr_mem
    intro p hp
    simp only [Function.comp, if_true]
    rw [addRow_eq hv (mmRow_length hA hB (hlen p hp)),
      mmRow_comp hA hB (by simp) (Fac.toVec_length hv) (hlen p hp), zipWith_mul_one hA, hav, zipWith_mul_one hB]

/-- a further non-overriding scaling keeps the invariant -/
theorem step_preserves {s0 s : DS} {d : Nat} {op : ScOp}
    (hne : s0.samples ≠ []) (hrect : Rect d s0.rows) (h : ScaledFrom s0 s d) (hv : op.Valid d) :
    (op.apply s false).2 = none ∧ ScaledFrom s0 (op.apply s false).1 d := by
  obtain ⟨h1, h2, h3, h4, h5⟩ := image_step hne (rect_of_samples hrect) h.img hv
  exact ⟨h1, ⟨h2, h3.trans h.omin, h4.trans h.shuffled, h5.trans h.flat⟩⟩

/-- what a successful non-overriding `scale_factor` / `shift_value` changes (opaque form of `facShift_further`) -/
theorem facShift_further_spec (s : DS) (shift : Bool) (f g b : Fac)
    (hsc : s.scaled = true) (hne : s.samples ≠ []) (hfit : f.fits s.dim = true) (hg : s.factor = some g)
    (hb : s.offset = some b) :
    ∃ S, facShift s shift f false = (S, none) ∧
      S.samples = s.samples.map (fun p => ((if shift then f.addRow else f.mulRow) p.1, p.2)) ∧
      S.factor = some (if shift then g else g.mul f) ∧ S.offset = some (if shift then b.add f else b.mul f) ∧
      S.scaled = true ∧ S.dim = s.dim ∧ S.omin = s.omin ∧
      S.omax = s.omax ∧ S.shuffled = s.shuffled ∧ S.flat = s.flat := by
  obtain ⟨mn, mx, h⟩ := facShift_further s shift f g b hsc hne hfit hg hb
  exact ⟨_, h, rfl, rfl, rfl, hsc, rfl, rfl, rfl, rfl, rfl⟩

theorem undo_row {A B r : Row} {d : Nat} (hA : A.length = d) (hB : B.length = d) (hr : r.length = d)
    (hnz : ∀ x ∈ A, x ≠ 0) :
    mmRow (A.map (1 / ·)) (List.replicate d 0) (mmRow A B r) =
      List.zipWith (· + ·) r (List.zipWith (· * ·) B (A.map (1 / ·))) := by
  apply List.ext_getElem
  · simp [mmRow, hA, hB, hr]
  · intro i h1 h2
    have hi : i < A.length := by simp [mmRow, hA, hB, hr] at h1; omega
    have : A[i] ≠ 0 := hnz _ (List.getElem_mem hi)
    simp only [mmRow, List.getElem_zipWith, List.getElem_map, List.getElem_replicate]
    field_simp
    ring

theorem undo_shift_row {r A B : Row} {d : Nat} (hr : r.length = d) (hA : A.length = d) (hB : B.length = d) :
    mmRow (List.replicate d 1) (List.zipWith (fun x y => -(x / y)) B A)
      (List.zipWith (· + ·) r (List.zipWith (· * ·) B (A.map (1 / ·)))) = r := by
  apply List.ext_getElem
  · simp [mmRow, hr, hA, hB]
  · intro i h1 h2
    simp only [mmRow, List.getElem_zipWith, List.getElem_map, List.getElem_replicate]
    ring

/-- **`revert_scaling` of an image**: the samples come back as `orig` and the attributes are reset — no reference to
    the minimum of the current samples, hence valid for every part / remainder / concatenation of parts as well -/
theorem revert_image {orig : List Sample} {s : DS} {d : Nat} (hne : orig ≠ []) (hlen : ∀ p ∈ orig, p.1.length = d)
    (h : ImageOf orig s d) :
    (revert s).2 = none ∧ (revert s).1.samples = orig ∧ (revert s).1.scaled = false ∧
    (revert s).1.range = none ∧ (revert s).1.factor = none ∧ (revert s).1.offset = none ∧ (revert s).1.omin = none ∧
    (revert s).1.omax = none ∧ (revert s).1.dim = d ∧ (revert s).1.shuffled = s.shuffled ∧ (revert s).1.flat = s.flat := by
  have hsne := h.samples_ne hne
  obtain ⟨f, b, hfac, hoff, hfit, hbfit, hnz, hs⟩ := h.rep
  have hA := Fac.toVec_length hfit
  have hB := Fac.toVec_length hbfit
  obtain ⟨fi, hinv, hfifit, hfiv⟩ := Fac.inv_spec hfit hnz
  obtain ⟨S1, hS1, hS1s, hS1f, hS1o, hS1sc, hS1d, _, _, hS1sh, hS1fl⟩ :=
    facShift_further_spec s false fi f b h.scaled hsne (by rw [h.dim]; exact hfifit) hfac hoff
  have hstep1 : revertStep1 s = (S1, none) := by
    unfold revertStep1
    rw [hfac]; simp only [hinv]; exact hS1
  have hS1samples : S1.samples = orig.map (fun p =>
      (List.zipWith (· + ·) p.1 (List.zipWith (· * ·) (b.toVec d) ((f.toVec d).map (1 / ·))), p.2)) := by
    rw [hS1s, hs, List.map_map]
    apply map_congr_mem
    intro p hp
    simp only [Function.comp, Bool.false_eq_true, if_false]
    rw [mulRow_eq hfifit (mmRow_length hA hB (hlen p hp)), hfiv,
      undo_row hA hB (hlen p hp) (Fac.toVec_nonzero hnz)]
  obtain ⟨hundo, hundofit⟩ := Fac.negDiv_spec hbfit hfit
  have hS1ne : S1.samples ≠ [] := by rw [hS1samples]; simpa using hne
  obtain ⟨S2, hS2, hS2s, _, _, _, hS2d, _, _, hS2sh, hS2fl⟩ :=
    facShift_further_spec S1 true (b.negDiv f) (f.mul fi) (b.mul fi) hS1sc hS1ne
      (by rw [hS1d, h.dim]; exact hundofit) hS1f hS1o
  have hS2samples : S2.samples = orig := by
    rw [hS2s, hS1samples, List.map_map]
    conv_rhs => rw [← List.map_id orig]
    apply map_congr_mem
    intro p hp
    simp only [Function.comp, if_true, id]
    have hl : (List.zipWith (· + ·) p.1 (List.zipWith (· * ·) (b.toVec d) ((f.toVec d).map (1 / ·)))).length = d := by
      simp [hlen p hp, hA, hB]
    rw [addRow_eq hundofit hl, hundo, undo_shift_row (hlen p hp) hA hB]
  have hrev : revert s =
      ({ S2 with scaled := false, range := none, factor := none, offset := none, omin := none, omax := none }, none) := by
    unfold revert
    rw [hfac]; simp only [hinv, hoff, hstep1]
    unfold shiftValue
    rw [hS2]
  rw [hrev]
  exact ⟨rfl, hS2samples, rfl, rfl, rfl, rfl, rfl, rfl, by simp [hS2d, hS1d, h.dim], by simp [hS2sh, hS1sh],
    by simp [hS2fl, hS1fl]⟩

/-- `revert_scaling` after a first scaling and any number of further ones returns the samples of `s0` and
    resets the attributes -/
theorem revert_from {s0 s : DS} {d : Nat} (hne : s0.samples ≠ []) (hrect : Rect d s0.rows) (h : ScaledFrom s0 s d) :
    (revert s).2 = none ∧ (revert s).1.samples = s0.samples ∧ (revert s).1.scaled = false ∧
    (revert s).1.range = none ∧ (revert s).1.factor = none ∧ (revert s).1.omin = none ∧ (revert s).1.omax = none ∧
    (revert s).1.dim = d ∧ (revert s).1.shuffled = s0.shuffled ∧ (revert s).1.flat = s0.flat := by
  obtain ⟨r1, r2, r3, r4, r5, _, r7, r8, r9, r10, r11⟩ := revert_image hne (rect_of_samples hrect) h.img
  exact ⟨r1, r2, r3, r4, r5, r7, r8, r9, r10.trans h.shuffled, r11.trans h.flat⟩

/-! ### labels stay where they are in every outcome of a scaling operation -/

theorem scaleRange_labels (s : DS) (lo hi : Rat) (ov : Bool) : (scaleRange s lo hi ov).1.labels = s.labels := by
  unfold scaleRange
  repeat' split
  all_goals simp [DS.labels, List.map_map, Function.comp_def]

theorem facShift_labels (s : DS) (shift : Bool) (f : Fac) (ov : Bool) : (facShift s shift f ov).1.labels = s.labels := by
  unfold facShift
  simp only
  repeat' split
  all_goals simp_all [DS.labels, List.map_map, Function.comp_def]

theorem revert_labels (s : DS) : (revert s).1.labels = s.labels := by
  have h1 : (revertStep1 s).1.labels = s.labels := by
    unfold revertStep1
    split
    · rfl
    · split
      · rfl
      · exact facShift_labels _ _ _ _
  unfold revert
  split
  · rfl
  · split
    · rfl
    · split
      · rfl
      · have h2 : ∀ v, (facShift s true v false).1.labels = s.labels := fun v => facShift_labels s true v false
        have h2' : ∀ (s1 : DS) v, (facShift s1 true v false).1.labels = s1.labels :=
          fun s1 v => facShift_labels s1 true v false
        split
        · next s1 e he => rw [← h1, he]
        · next s1 he =>
          rw [he] at h1
          split
          · next s2 e he2 =>
            unfold shiftValue at he2
            have h3 := congrArg (fun x => x.1.labels) he2
            simp only [h2'] at h3
            rw [← h3, h1]
          · next s2 he2 =>
            unfold shiftValue at he2
            have h3 := congrArg (fun x => x.1.labels) he2
            simp only [h2'] at h3
            simp only [DS.labels] at h3 h1 ⊢
            rw [← h3, h1]

end SparseSpace.DSM
