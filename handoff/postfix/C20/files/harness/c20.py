"""C20 -- regression solves the regularised least-squares problem on every component grid.

Correspondence: the real `Regression` object (default construction arguments) vs. Model/Regress through drv_c20:
design matrices, smoothing matrices, left/right sides, the residual of the model's system at the implementation's
surpluses, min-max scaling, the final normalisation of the three coefficient-optimisation variants.
Oracle (independent of the model, exact Fractions where possible): A entries = tensor hat values; C = Gram matrix
of the basis gradients (uniform and non-uniform grids); C symmetric, positive semi-definite; the surpluses of every
component grid satisfy the normal equations formed with the implementation's own matrices; optimised coefficients
sum to one; default construction succeeds for every real-valued target vector."""
import contextlib
import io
import itertools
import math
import os
from fractions import Fraction as F

import numpy as np

from common import frac_str, vec_str

TOL_EXACT = 1e-12      # float evaluation of exact rational expressions
TOL_SOLVE = 1e-8       # residual of a solved system, relative to the size of its terms


# ------------------------------------------------------------------------------------------- helpers
@contextlib.contextmanager
def quiet():
    with contextlib.redirect_stdout(io.StringIO()):
        yield


class LstsqTap:
    """records what numpy.linalg.lstsq returned while the implementation runs (external call, not repo code)"""

    def __enter__(self):
        self.orig = np.linalg.lstsq
        self.solutions = []

        def wrap(*a, **k):
            r = self.orig(*a, **k)
            self.solutions.append(np.array(r[0], dtype=float).flatten())
            return r
        np.linalg.lstsq = wrap
        return self

    def __exit__(self, *exc):
        np.linalg.lstsq = self.orig
        return False


def fr_vec(v):
    return ",".join(frac_str(float(x)) for x in v) if len(v) else "-"


def fr_rows(rows):
    return ";".join(fr_vec(r) for r in rows)


def parse_vec(s):
    s = s.strip()
    assert s.startswith("[") and s.endswith("]"), s[:80]
    s = s[1:-1]
    return [F(x) for x in s.split(",")] if s else []


def parse_mat(s):
    s = s.strip()
    assert s.startswith("[") and s.endswith("]"), s[:80]
    s = s[1:-1]
    if not s:
        return []
    return [parse_vec(r if r.endswith("]") else r + "]") for r in s.replace("],[", "]|[").split("|")]


def mat_close(impl, model, tol):
    """impl: float array; model: list of lists of Fractions -> (ok, worst)"""
    impl = np.asarray(impl, dtype=float)
    if impl.ndim != 2:
        return False, "implementation matrix has shape %s" % (impl.shape,)
    if len(model) != impl.shape[0] or any(len(r) != impl.shape[1] for r in model):
        return False, "shape impl %s expected %dx%s" % (impl.shape, len(model), len(model[0]) if model else 0)
    worst = 0.0
    for i, r in enumerate(model):
        for j, x in enumerate(r):
            d = abs(float(x) - impl[i, j]) / max(1.0, abs(float(x)))
            if not (d <= tol):
                return False, "entry (%d,%d): impl %r expected %s" % (i, j, impl[i, j], x)
            worst = max(worst, d)
    return True, worst


def vec_close(impl, model, tol):
    impl = np.asarray(impl, dtype=float).flatten()
    if len(impl) != len(model):
        return False, "length impl %d expected %d" % (len(impl), len(model))
    for i, x in enumerate(model):
        if not (abs(float(x) - impl[i]) <= tol * max(1.0, abs(float(x)))):
            return False, "entry %d: impl %r expected %s" % (i, impl[i], x)
    return True, 0.0


# ------------------------------------------------------------------------------------------- independent oracle
def hat_spec(lo, p, up, x):
    """the piecewise-linear nodal basis function of node p with neighbours lo < p < up"""
    if x <= lo or x >= up:
        return F(0)
    if x <= p:
        return (x - lo) / (p - lo)
    return (up - x) / (up - p)


def nodes_uniform(l):
    return [F(k, 2 ** l) for k in range(2 ** l + 1)]


def design_spec(stripes, X):
    """A_{s,j} = prod_d hat_{j_d}(x_{s,d}); columns in itertools.product order of the interior nodes"""
    idx = list(itertools.product(*[range(1, len(s) - 1) for s in stripes]))
    rows = []
    for x in X:
        row = []
        for iv in idx:
            v = F(1)
            for d, i in enumerate(iv):
                s = stripes[d]
                v *= hat_spec(s[i - 1], s[i], s[i + 1], F(float(x[d])))
                if v == 0:
                    break
            row.append(v)
        rows.append(row)
    return rows


def stiff_mass_1d(nodes):
    """Gram matrices of the derivatives / of the values of the interior hat functions, cell by cell:
    on the cell [a,b] of width h the two basis functions have slopes -1/h, +1/h and values linear from 1 to 0"""
    n = len(nodes) - 2
    S = [[F(0)] * n for _ in range(n)]
    M = [[F(0)] * n for _ in range(n)]
    for c in range(len(nodes) - 1):
        h = nodes[c + 1] - nodes[c]
        left, right = c - 1, c          # interior indices of the nodes bounding the cell (may be out of range)
        for (u, su) in ((left, -1), (right, 1)):
            for (v, sv) in ((left, -1), (right, 1)):
                if 0 <= u < n and 0 <= v < n:
                    S[u][v] += F(su * sv) / h
                    M[u][v] += h / 3 if u == v else h / 6
    return S, M


def gram_spec(stripes):
    SM = [stiff_mass_1d([F(float(x)) for x in s]) for s in stripes]
    ns = [len(s) - 2 for s in stripes]
    idx = list(itertools.product(*[range(n) for n in ns]))
    G = [[F(0)] * len(idx) for _ in idx]
    for a, i in enumerate(idx):
        for b, j in enumerate(idx):
            t = F(0)
            for k in range(len(ns)):
                p = F(1)
                for m in range(len(ns)):
                    p *= SM[m][0][i[m]][j[m]] if m == k else SM[m][1][i[m]][j[m]]
                    if p == 0:
                        break
                t += p
            G[a][b] = t
    return G


def c_class(variant, stripes_or_lv):
    if variant == "uniform":
        lv = stripes_or_lv
        return "anisotropic" if len(set(lv)) > 1 else "isotropic"
    ns = [len(s) - 2 for s in stripes_or_lv]
    if len(ns) == 1:
        return "dim1-touching" if ns[0] >= 3 else "dim1-small"
    return "multi-dim" if int(np.prod(ns)) >= 2 else "multi-dim-single-point"


def oracle_C(ctx, case, variant, key, C, stripes):
    """clauses: symmetric, positive semi-definite, equals the gradient Gram matrix"""
    ok = True
    C = np.asarray(C, dtype=float)
    cls = c_class(variant, key)
    tags = {"variant": variant, "class": cls, "dim": len(stripes)}
    if C.shape[0] != C.shape[1] or C.shape[0] != int(np.prod([len(s) - 2 for s in stripes])):
        ctx.violation("C-shape", tags, case, {"shape": list(C.shape)})
        return False
    if C.size == 0:
        return True
    scale = max(1.0, float(np.abs(C).max()))
    if float(np.abs(C - C.T).max()) > TOL_EXACT * scale:
        ok = not ctx.violation("C-symmetric", tags, case, {"max_asym": float(np.abs(C - C.T).max())}) and ok
    ev = float(np.linalg.eigvalsh((C + C.T) / 2).min())
    if ev < -1e-12 * scale:
        ok = not ctx.violation("C-psd", tags, case, {"min_eigenvalue": ev, "grid": str(key)}) and ok
    G = gram_spec(stripes)
    good, why = mat_close(C, G, 1e-11)
    if not good:
        ok = not ctx.violation("C-equals-gram", tags, case, {"grid": str(key), "first_difference": str(why)}) and ok
    ctx.count("oracle_C_%s_%s" % (variant, cls))
    return ok


def near_node(stripes, X):
    """some sample coordinate lies strictly left of a grid node by less than 1e-12 (a float near-tie of the
    one-sided clipping in hat_function_non_symmetric_completely_vectorized)"""
    for x in X:
        for d, s in enumerate(stripes):
            for p in s[1:-1]:
                if 0 < p - float(x[d]) < 1e-12:
                    return True
    return False


def oracle_A(ctx, case, variant, key, A, stripes, X):
    spec = design_spec(stripes, X)
    good, why = mat_close(A, spec, TOL_EXACT)
    if not good:
        tags = {"variant": variant, "dim": len(stripes), "sample_one_ulp_left_of_node": near_node(stripes, X)}
        return not ctx.violation("A-equals-hat-values", tags, case, {"grid": str(key), "first_difference": str(why)})
    return good


def oracle_normal_eq(ctx, case, variant, key, A, y, lam, matrix, Cimpl, alpha, step=0):
    """the surpluses satisfy the normal equations formed with the implementation's own matrices"""
    A = np.asarray(A, dtype=float)
    y = np.asarray(y, dtype=float)
    alpha = np.asarray(alpha, dtype=float).flatten()
    m = len(y)
    tags = {"variant": variant, "matrix": matrix, "lam0": lam == 0, "training": step if isinstance(step, str) else ("first" if step == 0 else "repeated")}
    if alpha.shape[0] != A.shape[1] or not np.all(np.isfinite(alpha)):
        ctx.violation("normal-equations", tags, case, {"grid": str(key), "alpha_shape": list(alpha.shape), "columns": int(A.shape[1])})
        return False
    if lam == 0:
        lhs, rhs = A.T @ A, A.T @ y
    else:
        Mx = np.asarray(Cimpl, dtype=float) if matrix == "C" else np.eye(A.shape[1])
        lhs, rhs = A.T @ A / m + lam * Mx, A.T @ y / m
    res = lhs @ alpha - rhs
    # purely relative (backward-stability bound of lstsq): tiny / huge regularisation values and target scales stay visible
    size = float(np.abs(lhs).sum(axis=1).max() * np.abs(alpha).max() + np.abs(rhs).max()) if lhs.size else 0.0
    worst = float(np.abs(res).max()) if res.size else 0.0
    if not (worst <= TOL_SOLVE * size):
        ctx.violation("normal-equations", tags, case, {"grid": str(key), "residual": worst, "size": size})
        return False
    return True


# ------------------------------------------------------------------------------------------- generators
def dyadic(r, lo, hi, den):
    return r.randrange(int(lo * den), int(hi * den) + 1) / den


def gen_data(r, m, dim, den=32, tmin=-1.0, extremes=False):
    """samples in [0,1]^dim and targets, all dyadic; with `extremes` every dimension gets its own dyadic affine map
    (scale 2^-20 .. 2^10, offset up to 2^9 scales, both signs) and the targets a scale 2^-20 / 2^20"""
    X = [[dyadic(r, 0, 1, den) for _ in range(dim)] for _ in range(m)]
    kind = r.choice(["random", "random", "smooth", "constant"])
    if kind == "random":
        y = [dyadic(r, tmin, 2, 8) for _ in range(m)]
    elif kind == "smooth":
        y = [max(tmin, round(8 * (sum(x) - 0.75 * x[0] * x[-1])) / 8) for x in X]
    else:
        c = dyadic(r, max(tmin, -1), 2, 4)
        y = [c for _ in range(m)]
    if extremes:
        for d in range(dim):
            sc = r.choice([2.0 ** -20, 2.0 ** -3, 0.5, 3.0, 2.0 ** 10])
            off = sc * r.choice([0, 0, -1, 5, -64, 512, -512])
            lo, hi = sorted(r.sample(range(0, 9), 2))          # the column does not fill [0,1]: own minimum and maximum
            for row in X:
                row[d] = off + sc * (lo + (hi - lo) * row[d]) / 8
        ys = r.choice([1.0, 1.0, 2.0 ** -20, 2.0 ** 20, -2.0 ** 7])
        y = [v * ys for v in y]
    return X, y


def gen_lam(r, extremes=False):
    if extremes and r.random() < 0.6:
        return r.choice([2.0 ** -30, 2.0 ** -20, 2.0 ** 10, 2.0 ** 20])
    return r.choice([0.0, 0.0, 2.0 ** -1, 2.0 ** -3, 2.0 ** -3, 2.0 ** -6, 2.0 ** -10, 1.0])


def gen_lam_other(r, lam):
    """a value for Regression.regularization_opticom that differs from the regularisation value"""
    while True:
        v = r.choice([0.0, 2.0 ** -1, 2.0 ** -2, 2.0 ** -5, 2.0 ** -8, 2.0])
        if v != lam:
            return v


def gen_lv(r, dim, thorough):
    cap = 64 if thorough else 40
    while True:
        lv = [r.randint(1, 4 if dim == 1 else 3) for _ in range(dim)]
        if int(np.prod([2 ** l - 1 for l in lv])) <= cap:
            return lv


def gen_stripe(r, maxpts):
    pts = {F(0), F(1), F(1, 2)}
    k = r.randint(0, maxpts - 1)
    for _ in range(k):
        s = sorted(pts)
        i = r.randrange(len(s) - 1)
        mid = (s[i] + s[i + 1]) / 2
        if mid.denominator <= 64:
            pts.add(mid)
    return [float(x) for x in sorted(pts)]


def gen_stripes(r, dim, thorough):
    cap = 48 if thorough else 30
    while True:
        st = [gen_stripe(r, 6 if dim == 1 else (4 if dim == 2 else 3)) for _ in range(dim)]
        if int(np.prod([len(s) - 2 for s in st])) <= cap:
            return st


def make_regression(X, y, lam, matrix, cls=None, keep=None):
    from sparseSpACE.GridOperation import Regression
    cls = cls or Regression
    X0, y0 = np.array(X, dtype=float), np.array(y, dtype=float)
    if keep is not None:
        keep["X0"], keep["y0"] = X0, y0          # the caller's own arrays
    with quiet():
        return cls(X0, y0, lam, matrix)


# ------------------------------------------------------------------------------------------- case runners
class Cmp:
    def __init__(self, ctx, case):
        self.ctx, self.case, self.ok = ctx, case, True

    def corr(self, obs, good, detail):
        if not good:
            self.ok = False
            self.ctx.corr_break("C20/" + obs, self.case, {"detail": str(detail)[:600]})

    def model_line(self, drv, line, obs):
        out = drv.ask(line)
        if out == "bad-op":
            self.corr(obs, False, "model rejected: " + line[:200])
            return None
        return out


def send_data(drv, cmp, X, y):
    r1 = drv.ask("data " + fr_rows(X))
    r2 = drv.ask("y " + fr_vec(y))
    cmp.corr("data", r1 == "ok %d %d" % (len(X), len(X[0])) and r2 == "ok %d" % len(y), (r1, r2))


def run_direct(ctx, drv, case):
    """matrices and solves on ONE grid with dyadic training data assigned as the repo's tests do"""
    cmp = Cmp(ctx, case)
    X, y, lam, matrix = case["X"], case["y"], case["lam"], case["matrix"]
    dim = len(X[0])
    try:
        reg = make_regression(X, y, lam, matrix)
    except Exception as e:
        ctx.violation("constructor", {"class": "default-arguments", "error": type(e).__name__}, case, {"error": repr(e)[:300]})
        return False
    if case.get("use_scaled"):
        check_scaling(ctx, drv, cmp, reg, X)
        X = [[float(v) for v in row] for row in np.asarray(reg.data)]     # the samples as the constructor scaled them
        reg.training_data = np.asarray(reg.data, dtype=float)
    else:
        reg.training_data = np.array(X, dtype=float)
    reg.training_target_values = np.array(y, dtype=float)
    send_data(drv, cmp, X, y)
    lamS = frac_str(lam)
    if case["kind"] == "direct-uniform":
        lv = case["lv"]
        stripes = [[float(v) for v in nodes_uniform(l)] for l in lv]
        reg.grid.numPoints = 2 ** np.asarray(lv, dtype=int) - 1
        with quiet():
            A = reg.build_A_matrix(lv)
            C = reg.build_C_matrix(lv)
            left = reg.build_left_matrix(lv) if lam != 0 else None
            right = reg.build_right_vector(lv) if lam != 0 else None
            alpha = reg.solve_regression(lv) if lam == 0 else reg.solve_regression_smooth(lv)
        key, variant, arg, sfx = lv, "uniform", vec_str(lv), "U"
    else:
        stripes = case["stripes"]
        with quiet():
            A = reg.build_A_matrix_dimension_wise(stripes, None)
            C = reg.build_C_matrix_dimension_wise(stripes, None)
            m = len(y)
            if lam != 0:
                Mx = C if matrix == "C" else np.identity(A.shape[1])
                left = (1 / m) * np.dot(A.T, A) + lam * Mx
                right = (1 / m) * A.T.dot(np.array(y, dtype=float))
            else:
                left = right = None
            alpha = reg.solve_regression_dimension_wise(stripes, None, None) if lam == 0 else \
                reg.solve_regression_dimension_wise_smooth(stripes, None, None)
        key, variant, arg, sfx = stripes, "dimension_wise", fr_rows(stripes), "NU"
    # ---- repeated queries on the same object; returned arrays must not alias state that a later query hands out again
    if case["kind"] == "direct-uniform":
        queries = {"A": lambda: reg.build_A_matrix(lv), "C": lambda: reg.build_C_matrix(lv),
                   "solve": lambda: reg.solve_regression(lv) if lam == 0 else reg.solve_regression_smooth(lv)}
    else:
        queries = {"A": lambda: reg.build_A_matrix_dimension_wise(stripes, None), "C": lambda: reg.build_C_matrix_dimension_wise(stripes, None),
                   "solve": lambda: reg.solve_regression_dimension_wise(stripes, None, None) if lam == 0 else
                   reg.solve_regression_dimension_wise_smooth(stripes, None, None)}
    first = {"A": A, "C": C, "solve": alpha}
    keepv = {k: np.array(v, dtype=float).copy() for k, v in first.items()}
    rq_ok = True
    for name in ("C", "A", "solve"):
        if name == "C" and C.size > 1600:
            continue
        with quiet():
            again = np.asarray(queries[name](), dtype=float)
        same = again.shape == keepv[name].shape and np.array_equal(again, keepv[name])
        if same and np.asarray(first[name]).size:
            arr = np.asarray(first[name])
            if arr.flags.writeable:
                arr[...] = 12345.0                      # the caller overwrites what it was handed
                with quiet():
                    third = np.asarray(queries[name](), dtype=float)
                same = third.shape == keepv[name].shape and np.array_equal(third, keepv[name])
        if not same:
            rq_ok = not ctx.violation("repeat-query", {"what": name, "variant": variant}, case,
                                      {"grid": str(key), "note": "the same query on the same object gave a different answer (2nd / after overwriting the 1st result)"}) and rq_ok
    A, C, alpha = keepv["A"], keepv["C"], keepv["solve"]
    ctx.count("repeat_query_checked")
    # ---- correspondence
    ambiguous = variant == "dimension_wise" and near_node(stripes, X)
    if ambiguous:
        ctx.count("ambiguous_float")
    out = cmp.model_line(drv, "A%s %s" % (sfx, arg), "design-matrix")
    if out is not None and not ambiguous:
        good, why = mat_close(A, parse_mat(out), TOL_EXACT if case.get("use_scaled") else 0.0)
        cmp.corr("design-matrix", good, why)
    out = cmp.model_line(drv, "C%s %s" % (sfx, arg), "C-matrix")
    if out is not None:
        good, why = mat_close(C, parse_mat(out), TOL_EXACT)
        cmp.corr("C-matrix", good, why)
    if lam != 0 and not ambiguous:
        out = cmp.model_line(drv, "SYS%s %s %s %s" % (sfx, lamS, matrix, arg), "system")
        if out is not None:
            l, r = out.split("|")
            good, why = mat_close(left, parse_mat(l), TOL_EXACT)
            cmp.corr("left-matrix", good, why)
            good, why = vec_close(right, parse_vec(r), TOL_EXACT)
            cmp.corr("right-vector", good, why)
    if ambiguous:
        pass
    elif np.all(np.isfinite(alpha)) and len(np.asarray(alpha).flatten()) == A.shape[1]:
        out = cmp.model_line(drv, "RES%s %s %s %s %s" % (sfx, lamS, matrix, arg, fr_vec(np.asarray(alpha).flatten())), "residual")
        if out is not None:
            res = [float(v) for v in parse_vec(out)]
            size = 1.0 + (float(np.abs(A).sum()) ** 2 + abs(lam) * float(np.abs(C).sum() if C.size else 0) + 1) * max(1.0, float(np.abs(alpha).max()) if A.shape[1] else 1.0)
            worst = max([abs(v) for v in res] + [0.0])
            cmp.corr("surpluses-solve-model-system", worst <= TOL_SOLVE * size, {"residual": worst, "size": size})
    else:
        cmp.corr("surpluses-shape", False, {"alpha": str(alpha)[:200]})
    # ---- oracle
    ok = oracle_A(ctx, case, variant, key, A, stripes, X)
    ok = oracle_C(ctx, case, variant, key, C, stripes) and ok
    ok = oracle_normal_eq(ctx, case, variant, key, A, y, lam, matrix, C, alpha) and ok
    ctx.count("direct_%s_dim%d" % (variant, dim))
    ctx.count("lam_zero" if lam == 0 else "lam_pos_" + matrix)
    return ok and cmp.ok and rq_ok


def check_scaling(ctx, drv, cmp, reg, X, data=None):
    """Regression.scale_data with the default range [0.05, 0.95] vs the affine min-max map (per dimension)"""
    data = np.asarray(reg.data if data is None else data, dtype=float)
    if data.shape != (len(X), len(X[0])):
        ctx.violation("scaling-range", {"class": "shape"}, cmp.case, {"shape": list(data.shape), "expected": [len(X), len(X[0])]})
        return False
    for d in range(len(X[0])):
        col = [x[d] for x in X]
        out = cmp.model_line(drv, "SCALE %s %s %s" % (frac_str(0.05), frac_str(0.95), fr_vec(col)), "scaling")
        if out is not None:
            rg = max(col) - min(col)
            amp = (max(abs(v) for v in col) / rg) if rg > 0 else 1.0       # x*scale_ + min_ cancels when the column is far from 0
            good, why = vec_close(data[:, d], parse_vec(out), 1e-12 + 2e-15 * amp)
            cmp.corr("scaling", good, why)
    # independent of the model: every column is the min-max map of the caller's column onto [0.05, 0.95] (a constant column -> 0.05)
    for d in range(len(X[0])):
        col = [F(float(x[d])) for x in X]
        mn, mx = min(col), max(col)
        amp = float(max(abs(mn), abs(mx)) / (mx - mn)) if mx > mn else 1.0
        lo5, rg9 = F(0.05), F(0.95) - F(0.05)
        for i, v in enumerate(col):
            want = float(lo5 + rg9 * (v - mn) / (mx - mn)) if mx > mn else 0.05
            if not abs(data[i, d] - want) <= 1e-12 + 2e-15 * amp:
                ctx.violation("scaling-range", {"class": "min-max-map"}, cmp.case, {"dimension": d, "sample": i, "impl": float(data[i, d]), "expected": want})
                return False
    lo, hi = float(data.min()), float(data.max())
    if lo < 0.05 - 1e-9 or hi > 0.95 + 1e-9:
        ctx.violation("scaling-range", {"class": "default-range"}, cmp.case, {"min": lo, "max": hi})
        return False
    return True


def cancellation_tol(raw):
    """relative tolerance for `raw / sum(raw)` computed in floats: the sum carries an error of about eps*sum|raw|;
    None when that error exceeds 1e-6 of the sum (comparison meaningless, counted as ambiguous_float)"""
    raw = [float(v) for v in raw]
    tot = abs(math.fsum(raw))
    mag = math.fsum(abs(v) for v in raw)
    if tot == 0.0 or not math.isfinite(mag):
        return 1e-9
    amp = 1e-15 * mag / tot
    if amp > 1e-6:
        return None
    return 1e-9 + amp


def opticom_checks(ctx, drv, cmp, case, reg, combi, adaptive, options=None):
    """every optimisation variant must leave coefficients that sum to one"""
    ok = True
    variant = "spatially_adaptive" if adaptive else "standard"
    for option in (options if options is not None else case["options"]):
        before = [float(g.coefficient) for g in combi.scheme]
        tags = {"option": option, "variant": variant}
        errs = None
        if option == 3:      # the per-grid validation errors, through the same public calls the implementation uses
            try:
                with quiet():
                    errs = []
                    for g in combi.scheme:
                        learned = combi.interpolate_points(reg.validation_data, g) if adaptive else \
                            reg.interpolate_points_component_grid(g, mesh_points_grid=None, evaluation_points=reg.validation_data)
                        d = np.asarray(learned, dtype=float).flatten() - np.asarray(reg.validation_target_values, dtype=float).flatten()
                        errs.append(float(np.mean(d * d)))
                        if not adaptive and len(reg.validation_data) <= 400:
                            # use site of the surpluses: the evaluation Opticom works with is the hat expansion of the stored surpluses
                            # (both sides of the >= 200 grid point switch); not a clause of the property -> correspondence observable
                            lv = [int(v) for v in g.levelvector]
                            al = np.asarray(reg.surpluses[tuple(lv)], dtype=float).flatten()
                            spec = design_spec([[float(v) for v in nodes_uniform(l)] for l in lv], reg.validation_data)
                            want = np.array([[float(v) for v in row] for row in spec], dtype=float) @ al
                            got = np.asarray(learned, dtype=float).flatten()
                            scale = max(1.0, float(np.abs(al).max()) if al.size else 1.0)
                            cmp.corr("evaluation-uses-surpluses", got.shape == want.shape and bool(np.all(np.abs(got - want) <= 1e-9 * scale)),
                                     {"grid": lv, "points": int(al.size), "worst": float(np.abs(got - want).max()) if got.shape == want.shape else "shape"})
                            ctx.count("evaluation_checked_%s" % ("ge200" if al.size >= 200 else "lt200"))
            except Exception:
                errs = None
        try:
            with quiet(), LstsqTap() as tap:
                if adaptive:
                    reg.optimize_coefficients_spatially_adaptive(combi, option)
                else:
                    reg.optimize_coefficients(combi, option)
        except Exception as e:
            tags["error"] = type(e).__name__ + ": " + str(e)[:60]
            ok = not ctx.violation("opticom-sum-one", tags, case, {"exception": repr(e)[:300]}) and ok
            ctx.count("opticom_exception")
            continue
        coefs = [float(g.coefficient) for g in combi.scheme]
        s = sum(coefs)
        ctx.count("opticom_option_%d_%s" % (option, variant))
        degenerate = False
        # correspondence: the final normalisation
        if option in (1, 2) and tap.solutions:
            sol = tap.solutions[-1]
            if not np.all(np.isfinite(sol)) or float(np.sum(sol)) == 0.0:
                degenerate = "zero-sum"
            out = cmp.model_line(drv, "NORM " + fr_vec(sol), "opticom-normalisation") if np.all(np.isfinite(sol)) else None
            tol = cancellation_tol(sol)
            if out == "nan":
                cmp.corr("opticom-normalisation", not all(math.isfinite(c) for c in coefs), {"impl": coefs})
            elif out is not None and tol is None:
                ctx.count("ambiguous_float")        # the float sum of the raw coefficients cancels catastrophically
            elif out is not None:
                good, why = vec_close(coefs, parse_vec(out), tol)
                cmp.corr("opticom-normalisation", good, why)
        if option == 3 and errs is not None and all(math.isfinite(b) for b in before):
            if any(e == 0.0 for e in errs):
                degenerate = "zero-error"
            elif sum(b / e for b, e in zip(before, errs)) == 0.0:
                degenerate = "zero-sum"
            out = cmp.model_line(drv, "OPT3 %s %s" % (fr_vec(before), fr_vec(errs)), "opticom3")
            tol = cancellation_tol([b / e for b, e in zip(before, errs)]) if not degenerate else 1e-7
            if out == "nan":
                cmp.corr("opticom3", not all(math.isfinite(c) for c in coefs), {"impl": coefs, "errs": errs})
            elif out is not None and tol is None:
                ctx.count("ambiguous_float")
            elif out is not None:
                good, why = vec_close(coefs, parse_vec(out), max(tol, 1e-7))
                cmp.corr("opticom3", good, {"why": why, "errs": errs, "before": before})
        elif option == 3 and not all(math.isfinite(b) for b in before):
            degenerate = "nan-input"
        if not all(math.isfinite(c) for c in coefs):
            tags["error"] = "nan"
            tags["degenerate"] = degenerate
            ok = not ctx.violation("opticom-sum-one", tags, case, {"coefficients": coefs[:8], "before": before[:8], "errors": errs}) and ok
            # later options would start from nan coefficients: give them the scheme's own coefficients back
            for g, b in zip(combi.scheme, before):
                g.coefficient = b
        elif abs(s - 1.0) > 1e-9 * max(1.0, sum(abs(c) for c in coefs)):
            tags["error"] = "sum"
            ok = not ctx.violation("opticom-sum-one", tags, case, {"sum": s, "coefficients": coefs[:8]}) and ok
    return ok


def steps_of(case):
    """training history of ONE Regression object: the first step is the construction + first training, every later
    step changes public attributes (regularization, regularization_matrix, regularization_opticom) and trains again"""
    if "steps" in case:
        return case["steps"]
    keys = ("lam", "matrix", "pct", "lmin", "lmax", "margin", "tol", "max_evals", "lam_opticom")
    return [{k: case[k] for k in keys if k in case}]


def apply_step(reg, step, first):
    if not first:
        reg.regularization = step["lam"]
        reg.regularization_matrix = step["matrix"]
    if step.get("lam_opticom") is not None:
        reg.regularization_opticom = step["lam_opticom"]


def recording_class():
    from sparseSpACE.GridOperation import Regression

    class Recording(Regression):
        def calculate_operation_dimension_wise(self, stripes, levels, cg):
            super().calculate_operation_dimension_wise(stripes, levels, cg)
            self.rec.append(([[float(v) for v in s] for s in stripes], tuple(int(v) for v in cg.levelvector),
                             np.array(self.surpluses[tuple(cg.levelvector)], dtype=float)))
    return Recording


def route_of(case, step):
    return step.get("route") or ("sa" if case["kind"] == "train-sa" else "std")


def split_contract(ctx, case, reg, data0, y0, noisy, si):
    """train_test_split only SELECTS rows: every (training / test sample, target) is a (scaled sample, target) of the data set;
    with noisy_data the training targets may deviate by the added noise (sigma = 1 % of the largest target)"""
    pairs = {}
    for row, t in zip(np.asarray(data0, dtype=float), np.asarray(y0, dtype=float)):
        pairs.setdefault(tuple(row.tolist()), []).append(float(t))
    noise_tol = 0.08 * float(np.abs(np.asarray(y0, dtype=float)).max()) if noisy else 0.0
    bad = None
    for name, Xs, ts, tol in (("training", reg.training_data, reg.training_target_values, noise_tol),
                              ("test", reg.test_data, reg.test_target_values, 0.0)):
        if Xs is None or ts is None or len(Xs) != len(ts):
            bad = (name, "lengths")
            break
        for row, t in zip(np.asarray(Xs, dtype=float), np.asarray(ts, dtype=float)):
            cand = pairs.get(tuple(row.tolist()))
            if cand is None or min(abs(float(t) - c) for c in cand) > tol:
                bad = (name, [float(v) for v in row], float(t), cand)
                break
        if bad:
            break
    if bad:
        return not ctx.violation("training-set-not-from-data", {"noisy": bool(noisy)}, case, {"step": si, "first_bad": str(bad)[:300]})
    return True


def after_queries(ctx, case, reg, combi, route, si):
    """rarely used public calls and evaluations after a training: same answer twice, stored surpluses untouched"""
    snap = {k: np.array(v, dtype=float).copy() for k, v in reg.surpluses.items()}
    ok = True
    try:
        with quiet():
            if route == "std":
                e1, e2 = reg.test(combi), reg.test(combi)
            else:
                e1, e2 = reg.test_spatially_adaptive(combi), reg.test_spatially_adaptive(combi)
            reg.initialize()
            reg.get_result()
            reg.print_evaluation_output(None)
            pts = np.asarray(reg.test_data)[:5]
            v1 = np.array(combi(pts), dtype=float)
            v2 = np.array(combi(pts), dtype=float)
    except Exception as e:
        return not ctx.violation("exception", {"kind": case.get("kind"), "error": type(e).__name__, "where": "after-training queries"}, case,
                                 {"step": si, "error": repr(e)[:300]})
    if not (e1 == e2 or (e1 != e1 and e2 != e2)) or not np.array_equal(v1, v2, equal_nan=True):
        ok = not ctx.violation("repeat-query", {"what": "evaluation", "variant": route}, case, {"step": si, "test_errors": [float(e1), float(e2)]}) and ok
    changed = [str(k) for k, v in snap.items() if k not in reg.surpluses or np.shape(reg.surpluses[k]) != v.shape
               or not np.array_equal(np.asarray(reg.surpluses[k], dtype=float), v, equal_nan=True)]
    if changed or len(reg.surpluses) != len(snap):
        ok = not ctx.violation("query-modifies-surpluses", {"variant": route}, case, {"step": si, "changed": changed[:5]}) and ok
    ctx.count("after_queries")
    return ok


def run_history(ctx, drv, case):
    """Regression(...) with default arguments, then a history of trainings on the SAME object: train() and/or
    train_spatially_adaptive() (route per step), changed regularisation value / matrix / Opticom parameter / split / level
    range / noisy flag; the caller overwrites the arrays it handed in; after EVERY training each component grid is checked
    with the current parameters, evaluations are repeated, the stored surpluses must survive them; Opticom after the last
    (optionally also the first) training"""
    cmp = Cmp(ctx, case)
    X, y = case["X"], case["y"]
    steps = steps_of(case)
    lam0, mat0 = steps[0]["lam"], steps[0]["matrix"]
    if case.get("prescaled"):
        # pre-conditioned input: the data an earlier Regression object scaled (all of it, or its training subset) is fed back in
        try:
            pre = make_regression(X, y, lam0, mat0)
            if case["prescaled"] == "training":
                with quiet():
                    pre.train(0.25, 1, 1, False)
                X = [[float(v) for v in row] for row in np.asarray(pre.training_data)]
                y = [float(v) for v in np.asarray(pre.training_target_values)]
            else:
                X = [[float(v) for v in row] for row in np.asarray(pre.data)]
                y = [float(v) for v in np.asarray(pre.target_values)]
        except Exception as e:
            ctx.violation("constructor", {"class": "default-arguments", "error": type(e).__name__}, case, {"error": repr(e)[:300]})
            return False
        ctx.count("prescaled_" + case["prescaled"])
    keep = {}
    try:
        reg = make_regression(X, y, lam0, mat0, recording_class(), keep)
    except Exception as e:
        ctx.violation("constructor", {"class": "default-arguments", "error": type(e).__name__}, case, {"error": repr(e)[:300]})
        return False
    reg.rec = []
    ok = check_scaling(ctx, drv, cmp, reg, X)
    # aliasing: the constructor must not modify the caller's arrays; afterwards the caller reuses them for something else
    if not (np.array_equal(keep["X0"], np.array(X, dtype=float)) and np.array_equal(keep["y0"], np.array(y, dtype=float))):
        ok = not ctx.violation("caller-arrays-modified", {"when": "constructor"}, case, {}) and ok
    data0 = np.array(reg.data, dtype=float).copy()
    if case.get("alias"):
        keep["X0"][...] = 0.5
        keep["y0"][...] = 3.0
        ctx.count("caller_overwrites_arrays")
    big = len(X) > 2000
    for si, step in enumerate(steps):
        lam, matrix = step["lam"], step["matrix"]
        route = route_of(case, step)
        apply_step(reg, step, si == 0)
        noisy = bool(step.get("noisy"))
        reg.rec = []
        tags_step = {"variant": "standard" if route == "std" else "spatially_adaptive", "training": "first" if si == 0 else "repeated"}
        if si > 0 and route != route_of(case, steps[si - 1]):
            tags_step["sequence"] = "%s-after-%s" % (route, route_of(case, steps[si - 1]))
        np.random.seed(20200 + si)          # noisy_data draws from numpy's global generator
        try:
            with quiet():
                if route == "std":
                    combi = reg.train(step["pct"], step["lmin"], step["lmax"], noisy)
                else:
                    combi = reg.train_spatially_adaptive(step["pct"], step["margin"], step["tol"], step["max_evals"], False, noisy)
        except Exception as e:
            ctx.violation("train", dict(tags_step, error=type(e).__name__), case, {"step": si, "error": repr(e)[:300]})
            return False
        # the object still holds the data set it was constructed with (whatever the caller did to its own arrays)
        if not np.array_equal(np.asarray(reg.data, dtype=float), data0) or \
                not np.array_equal(np.asarray(reg.target_values, dtype=float), np.array(y, dtype=float)):
            ok = check_scaling(ctx, drv, cmp, reg, X) and ok
            ok = not ctx.violation("data-set-changed", {"alias": bool(case.get("alias")), "training": tags_step["training"]}, case, {"step": si}) and ok
        ok = split_contract(ctx, case, reg, data0, y, noisy, si) and ok
        Xt = [[float(v) for v in row] for row in np.asarray(reg.training_data)]
        yt = [float(v) for v in np.asarray(reg.training_target_values)]
        send_data(drv, cmp, Xt, yt)
        lamS = frac_str(lam)
        if route == "std":
            for g in combi.scheme:
                lv = [int(v) for v in g.levelvector]
                alpha = reg.surpluses.get(tuple(lv))
                if alpha is None:
                    ok = not ctx.violation("surpluses-missing", {"variant": "standard"}, case, {"grid": str(lv), "step": si}) and ok
                    continue
                stripes = [[float(v) for v in nodes_uniform(l)] for l in lv]
                reg.grid.numPoints = 2 ** np.asarray(lv, dtype=int) - 1
                with quiet():
                    A = reg.build_A_matrix(lv)
                    C = reg.build_C_matrix(lv) if (matrix == "C" and lam != 0) else None
                ok = oracle_A(ctx, case, "uniform", lv, A, stripes, Xt) and ok
                if C is not None:
                    ok = oracle_C(ctx, case, "uniform", lv, C, stripes) and ok
                ok = oracle_normal_eq(ctx, case, "uniform", (si, lv), A, yt, lam, matrix, C, alpha, step=si) and ok
                out = cmp.model_line(drv, "RESU %s %s %s %s" % (lamS, matrix, vec_str(lv), fr_vec(np.asarray(alpha).flatten())), "residual") \
                    if (len(np.asarray(alpha).flatten()) == A.shape[1] and A.shape[1] <= 64) else None
                if out is not None:
                    res = [float(v) for v in parse_vec(out)]
                    size = 1.0 + (float(np.abs(A).sum()) ** 2 + 64.0 * abs(lam) * A.shape[1] + 1) * max(1.0, float(np.abs(alpha).max()) if A.shape[1] else 1.0)
                    worst = max([abs(v) for v in res] + [0.0])
                    cmp.corr("surpluses-solve-model-system", worst <= TOL_SOLVE * size, {"step": si, "grid": lv, "residual": worst, "size": size})
                ctx.count("train_grid_dim%d" % len(lv))
            ctx.count("train_step_first" if si == 0 else "train_step_repeated")
        else:
            seen = set()
            budget = case.get("grids", 8)
            for stripes, lv, alpha in reversed(reg.rec):      # newest first: the most refined, non-uniform grids
                sig = (tuple(tuple(s) for s in stripes),)
                n = int(np.prod([len(s) - 2 for s in stripes]))
                if sig in seen or n > 40 or n == 0:
                    continue
                seen.add(sig)
                if len(seen) > budget:
                    break
                with quiet():
                    A = reg.build_A_matrix_dimension_wise(stripes, None)
                    C = reg.build_C_matrix_dimension_wise(stripes, None) if (matrix == "C" and lam != 0) else None
                ok = oracle_A(ctx, case, "dimension_wise", stripes, A, stripes, Xt) and ok
                if C is not None:
                    ok = oracle_C(ctx, case, "dimension_wise", stripes, C, stripes) and ok
                ok = oracle_normal_eq(ctx, case, "dimension_wise", (si, stripes), A, yt, lam, matrix, C, alpha, step=si) and ok
                ambiguous = near_node(stripes, Xt)
                if ambiguous:
                    ctx.count("ambiguous_float")
                out = None if ambiguous else cmp.model_line(drv, "RESNU %s %s %s %s" % (lamS, matrix, fr_rows(stripes), fr_vec(alpha)), "residual")
                if out is not None:
                    res = [float(v) for v in parse_vec(out)]
                    cs = float(np.abs(C).sum()) if C is not None else 0.0
                    size = 1.0 + (float(np.abs(A).sum()) ** 2 + abs(lam) * cs + abs(lam) * A.shape[1] + 1) * max(1.0, float(np.abs(alpha).max()) if A.shape[1] else 1.0)
                    worst = max([abs(v) for v in res] + [0.0])
                    cmp.corr("surpluses-solve-model-system", worst <= TOL_SOLVE * size, {"step": si, "grid": str(stripes)[:200], "residual": worst, "size": size})
                ctx.count("train_sa_grid_dim%d" % len(stripes))
                ctx.count("train_sa_nonuniform" if any(len(set(round(b - a, 12) for a, b in zip(s, s[1:]))) > 1 for s in stripes) else "train_sa_uniform")
            # the final scheme: what the object holds NOW for each of its component grids
            ok = check_object_sa(ctx, case, reg, sa_grids(reg, combi), lam, matrix, "final-" + tags_step["training"]) and ok
            ctx.count("train_sa_step_first" if si == 0 else "train_sa_step_repeated")
        if "sequence" in tags_step:
            ctx.count("sequence_" + tags_step["sequence"])
        if noisy:
            ctx.count("noisy_data")
        if step.get("lam_opticom") is not None and step["lam_opticom"] != lam:
            ctx.count("train_opticom_parameter_differs" if route == "std" else "train_sa_opticom_parameter_differs")
        if not big:
            ok = after_queries(ctx, case, reg, combi, route, si) and ok
        if si == len(steps) - 1:
            ok = opticom_checks(ctx, drv, cmp, case, reg, combi, route != "std", case["options"]) and ok
        elif case.get("opticom_mid"):
            ok = opticom_checks(ctx, drv, cmp, case, reg, combi, route != "std", case["opticom_mid"]) and ok
    if not (np.array_equal(keep["X0"], np.full_like(keep["X0"], 0.5)) if case.get("alias") else np.array_equal(keep["X0"], np.array(X, dtype=float))):
        ok = not ctx.violation("caller-arrays-modified", {"when": "training"}, case, {}) and ok
    return ok and cmp.ok


run_train = run_history
run_train_sa = run_history


def run_opt3(ctx, drv, case):
    """model of option 3 (weights = coefficient / error, then normalisation) against the implementation's arithmetic"""
    cmp = Cmp(ctx, case)
    coefs, errs = case["coefs"], case["errs"]
    out = cmp.model_line(drv, "OPT3 %s %s" % (fr_vec(coefs), fr_vec(errs)), "opticom3")
    with np.errstate(all="ignore"):
        w = np.array(coefs, dtype=float) / np.array(errs, dtype=float)
        impl = w / np.sum(w)
    if out == "nan":
        cmp.corr("opticom3", not np.all(np.isfinite(impl)), {"impl": impl.tolist()})
    elif out is not None:
        good, why = vec_close(impl, parse_vec(out), 1e-9)
        cmp.corr("opticom3", good, why)
        s = sum(parse_vec(out))
        cmp.corr("opticom3-model-sum", s == 1, {"sum": str(s)})
    return cmp.ok


def run_constructor(ctx, drv, case):
    """default construction must succeed for every non-empty data set with real targets"""
    try:
        reg = make_regression(case["X"], case["y"], case["lam"], case["matrix"])
    except Exception as e:
        cls = "target-below-minus-one" if min(case["y"]) < -1 else "other"
        return not ctx.violation("constructor", {"class": cls, "error": type(e).__name__}, case, {"error": repr(e)[:300]})
    cmp = Cmp(ctx, case)
    ok = check_scaling(ctx, drv, cmp, reg, case["X"])
    t = np.asarray(reg.target_values, dtype=float)
    if len(t) != len(case["y"]) or np.abs(t - np.array(case["y"], dtype=float)).max() != 0:
        ok = not ctx.violation("constructor-targets-changed", {}, case, {"targets": t.tolist()[:8]}) and ok
    return ok and cmp.ok


def run_malformed(ctx, drv, case):
    out = drv.ask(case["line"])
    if out != "bad-op":
        ctx.corr_break("C20/malformed-accepted", case, {"model": out[:200]})
        return False
    return True


def expand_gen(g):
    """large data sets are described by a generator record (replayable from the case dict alone): m dyadic samples"""
    import random
    r = random.Random(g["seed"])
    m, dim, den = g["m"], g["dim"], g.get("den", 1024)
    X = [[r.randrange(0, den + 1) / den for _ in range(dim)] for _ in range(m)]
    y = [max(-1.0, round(8 * (sum(x) - 0.75 * x[0] * x[-1])) / 8) + r.randrange(-4, 5) / 16 for x in X]
    if g.get("affine"):         # own dyadic scale and offset per dimension
        X = [[off + sc * v for v, (sc, off) in zip(row, g["affine"])] for row in X]
    if g.get("yscale"):
        y = [v * g["yscale"] for v in y]
    return X, y


def std_grids(combi):
    return [tuple(int(v) for v in g.levelvector) for g in combi.scheme]


def check_object_std(ctx, case, reg, lvs, lam, matrix, training):
    """normal equations of every component grid of a standard training, with the object's OWN current data and parameters"""
    ok = True
    yt = [float(v) for v in np.asarray(reg.training_target_values)]
    for lv in lvs:
        alpha = reg.surpluses.get(tuple(lv))
        if alpha is None:
            ok = not ctx.violation("surpluses-missing", {"variant": "standard", "training": training}, case, {"grid": str(lv)}) and ok
            continue
        reg.grid.numPoints = 2 ** np.asarray(lv, dtype=int) - 1
        with quiet():
            A = reg.build_A_matrix(list(lv))
            C = reg.build_C_matrix(list(lv)) if (matrix == "C" and lam != 0) else None
        ok = oracle_normal_eq(ctx, case, "uniform", (training, list(lv)), A, yt, lam, matrix, C, alpha, step=training) and ok
    return ok


def sa_grids(reg, combi):
    """final component grids of a spatially adaptive training: level vector -> coordinate lists (last observation)"""
    want = set(std_grids(combi))
    out = {}
    for stripes, lv, _ in reg.rec:
        if lv in want and int(np.prod([len(s) - 2 for s in stripes])) <= 60:
            out[lv] = stripes
    return out


def check_object_sa(ctx, case, reg, grids, lam, matrix, training):
    ok = True
    yt = [float(v) for v in np.asarray(reg.training_target_values)]
    for lv, stripes in grids.items():
        alpha = reg.surpluses.get(tuple(lv))
        if alpha is None:
            ok = not ctx.violation("surpluses-missing", {"variant": "spatially_adaptive", "training": training}, case, {"grid": str(lv)}) and ok
            continue
        with quiet():
            A = reg.build_A_matrix_dimension_wise(stripes, None)
            C = reg.build_C_matrix_dimension_wise(stripes, None) if (matrix == "C" and lam != 0) else None
        ok = oracle_normal_eq(ctx, case, "dimension_wise", (training, stripes), A, yt, lam, matrix, C, alpha, step=training) and ok
    return ok


def run_siblings(ctx, drv, case):
    """two Regression objects alive at once (B a fresh object or a deepcopy of A with changed parameters) that train the
    same level vectors: A is observed after its own training AND again after B has trained"""
    import copy
    sa = case["variant"] == "sa"
    a, b = case["A"], case["B"]
    cls = recording_class() if sa else None
    try:
        regA = make_regression(case["X"], case["y"], a["lam"], a["matrix"], cls)
    except Exception as e:
        ctx.violation("constructor", {"class": "default-arguments", "error": type(e).__name__}, case, {"error": repr(e)[:300]})
        return False

    def train(reg, st):
        reg.rec = []
        with quiet():
            if sa:
                return reg.train_spatially_adaptive(st["pct"], st["margin"], st["tol"], st["max_evals"], False, False)
            return reg.train(st["pct"], st["lmin"], st["lmax"], False)

    def check(reg, grids, st, training):
        if sa:
            return check_object_sa(ctx, case, reg, grids, st["lam"], st["matrix"], training)
        return check_object_std(ctx, case, reg, grids, st["lam"], st["matrix"], training)

    try:
        combiA = train(regA, a)
        gridsA = sa_grids(regA, combiA) if sa else std_grids(combiA)
        ok = check(regA, gridsA, a, "first")
        snapA = {k: np.array(v, dtype=float).copy() for k, v in regA.surpluses.items()}
        if case.get("B_density"):
            # a sibling SUBCLASS of the common base class MachineLearning works on the same level vectors in between
            from sparseSpACE.GridOperation import DensityEstimation
            from sparseSpACE.StandardCombi import StandardCombi
            bd = case["B_density"]
            dimB = len(case["XB"][0])
            with quiet():
                opB = DensityEstimation(np.array(case["XB"], dtype=float), dimB, lambd=bd["lambd"])
                StandardCombi(np.zeros(dimB), np.ones(dimB), operation=opB).perform_operation(bd["lmin"], bd["lmax"])
            gridsB = [tuple(int(v) for v in k) for k in opB.surpluses.keys()]
            ctx.count("siblings_density_estimation")
        else:
            if case.get("copyB"):
                regB = copy.deepcopy(regA)
                apply_step(regB, b, False)
            else:
                regB = make_regression(case["XB"], case["yB"], b["lam"], b["matrix"], cls)
            combiB = train(regB, b)
            gridsB = sa_grids(regB, combiB) if sa else std_grids(combiB)
            ok = check(regB, gridsB, b, "first" if not case.get("copyB") else "copy") and ok
    except Exception as e:
        ctx.violation("train", {"variant": case["variant"], "training": "sibling", "error": type(e).__name__}, case, {"error": repr(e)[:300]})
        return False
    # A again, after its sibling trained
    ok = check(regA, gridsA, a, "sibling-trained-afterwards") and ok
    changed = [k for k, v in snapA.items() if k not in regA.surpluses or np.shape(regA.surpluses[k]) != np.shape(v)
               or not np.array_equal(np.asarray(regA.surpluses[k], dtype=float), v)]
    ctx.count("siblings_%s_%s" % (case["variant"], "copy" if case.get("copyB") else "fresh"))
    ctx.count("siblings_shared_level_vectors", len(set(map(tuple, gridsA)) & set(map(tuple, gridsB))))
    if changed:
        ctx.count("siblings_surpluses_changed_by_sibling")
    return ok


RUNNERS = {"direct-uniform": run_direct, "direct-nonuniform": run_direct, "train": run_train, "train-sa": run_train_sa,
           "opt3": run_opt3, "constructor": run_constructor, "malformed": run_malformed, "siblings": run_siblings}


def run_case(ctx, drv, case):
    if "gen" not in case:
        return RUNNERS[case["kind"]](ctx, drv, case)
    full = dict(case)
    full["X"], full["y"] = expand_gen(case["gen"])
    nv, nc = len(ctx.violations), len(ctx.corr_breaks)
    try:
        return RUNNERS[case["kind"]](ctx, drv, full)
    finally:      # reports carry the compact (generator) form of the case
        for rec in ctx.violations[nv:] + ctx.corr_breaks[nc:]:
            if rec.get("case") is full:
                rec["case"] = case


# ------------------------------------------------------------------------------------------- main loop
def gen_case_base(ctx, thorough, k):
    r = ctx.rng
    x = r.random()
    if x < (0.02 if thorough else 0.012):
        # size stream: more training points than any internal block size is likely to be, not a multiple of a power of two
        dim = r.choice([1, 1, 2])
        if r.random() < 0.5:
            m = r.choice([4097, 4500, 5000, 6143, 8193, 9000]) + r.randint(0, 40)
            lv = [r.randint(1, 3)] if dim == 1 else [r.randint(1, 2), r.randint(1, 2)]
            return {"kind": "direct-uniform", "gen": {"m": m, "dim": dim, "seed": r.randrange(10 ** 6)}, "lam": gen_lam(r), "matrix": r.choice(["C", "I"]),
                    "lv": lv, "use_scaled": r.random() < 0.3}
        m = r.choice([5200, 6000, 7000, 9000, 11000]) + r.randint(0, 40)
        return {"kind": "train", "gen": {"m": m, "dim": dim, "seed": r.randrange(10 ** 6)}, "options": [],
                "steps": [{"lam": gen_lam(r), "matrix": r.choice(["C", "I"]), "pct": r.choice([0.2, 0.1, 0.25]), "lmin": 1,
                           "lmax": 3 if dim == 1 else 2, "lam_opticom": None}]}
    if x < 0.055:
        dim = r.choice([1, 2, 2, 3])
        sa = r.random() < 0.35
        X, y = gen_data(r, r.randint(20, 50), dim)
        XB, yB = gen_data(r, r.randint(20, 50), dim)

        def st():
            if sa:
                return {"lam": gen_lam(r), "matrix": r.choice(["C", "I", "I"]), "pct": r.choice([0.25, 0.5]), "margin": r.choice([0.5, 0.75]), "tol": 1e-5,
                        "max_evals": r.choice([0, 12, 25] if dim < 3 else [0, 30]), "lam_opticom": None}
            return {"lam": gen_lam(r), "matrix": r.choice(["C", "C", "I"]), "pct": r.choice([0.25, 0.5, 0.1]), "lmin": 1, "lmax": 3 if dim < 3 else 2,
                    "lam_opticom": None}
        a, b = st(), st()
        if not sa:
            b["lmin"], b["lmax"] = a["lmin"], a["lmax"]
        case = {"kind": "siblings", "variant": "sa" if sa else "standard", "X": X, "y": y, "A": a, "B": b}
        if r.random() < 0.35:
            case["copyB"] = True
            if b["lam"] == a["lam"] and b["matrix"] == a["matrix"] and b["pct"] == a["pct"]:
                b["lam"] = gen_lam_other(r, a["lam"])
        else:
            case["XB"], case["yB"] = XB, yB
        return case
    if x < 0.30:
        dim = r.choice([1, 2, 2, 3])
        m = r.choice([8, 16, 16, 32, 32, 20, 48])
        X, y = gen_data(r, m, dim)
        return {"kind": "direct-uniform", "X": X, "y": y, "lam": gen_lam(r), "matrix": r.choice(["C", "I"]), "lv": gen_lv(r, dim, thorough),
                "use_scaled": r.random() < 0.3}
    if x < 0.58:
        dim = r.choice([1, 1, 2, 2, 3])
        m = r.choice([8, 16, 16, 32, 32, 20, 48])
        X, y = gen_data(r, m, dim, den=64)
        return {"kind": "direct-nonuniform", "X": X, "y": y, "lam": gen_lam(r), "matrix": r.choice(["C", "I"]), "stripes": gen_stripes(r, dim, thorough),
                "use_scaled": r.random() < 0.3}
    if x < 0.76:
        dim = r.choice([1, 2, 2, 3])
        m = r.randint(20, 60)
        X, y = gen_data(r, m, dim)
        lmin = r.choice([1, 1, 2])
        lmax = lmin + r.randint(0, 2) if dim < 3 else lmin + r.randint(0, 1)
        lmax = min(lmax, 4 if dim == 1 else 3)
        lmin = min(lmin, lmax)
        opts = [1, 2, 3]
        r.shuffle(opts)
        if dim == 3 and lmax > 2:
            opts = [o for o in opts if o != 1]      # Garcke's double loop over the finest common grid is too slow there
        def lvl():
            lo = r.choice([1, 1, 2])
            hi = lo + r.randint(0, 2) if dim < 3 else lo + r.randint(0, 1)
            hi = min(hi, 4 if dim == 1 else 3)
            return min(lo, hi), hi
        steps = []
        for si in range(r.choice([1, 1, 2, 3])):
            lam = gen_lam(r)
            lo, hi = (lmin, lmax) if (si == 0 or r.random() < 0.6) else lvl()      # mostly the same (overlapping) level range
            steps.append({"lam": lam, "matrix": r.choice(["C", "C", "I"]), "pct": r.choice([0.25, 0.5, 0.1]), "lmin": lo, "lmax": hi,
                          "lam_opticom": gen_lam_other(r, lam) if r.random() < 0.4 else None})
        if dim == 3 and max(st["lmax"] for st in steps) > 2:
            opts = [o for o in opts if o != 1]
        return {"kind": "train", "X": X, "y": y, "steps": steps, "options": opts,
                "opticom_mid": [r.choice([2, 3])] if len(steps) > 1 and r.random() < 0.3 else None}
    if x < 0.88:
        dim = r.choice([1, 1, 2, 2, 3])
        m = r.randint(20, 50)
        X, y = gen_data(r, m, dim)
        opts = [1, 2, 3]
        r.shuffle(opts)
        steps = []
        for si in range(r.choice([1, 1, 1, 2])):
            lam = gen_lam(r)
            steps.append({"lam": lam, "matrix": r.choice(["C", "I", "I"]), "pct": r.choice([0.25, 0.5]), "margin": r.choice([0.5, 0.75, 0.9]), "tol": 1e-5,
                          "max_evals": r.choice([0, 12, 25, 40] if dim < 3 else [0, 30, 60]),
                          "lam_opticom": gen_lam_other(r, lam) if r.random() < 0.5 else None})
        return {"kind": "train-sa", "X": X, "y": y, "steps": steps, "options": opts, "grids": 6,
                "opticom_mid": [r.choice([2, 3])] if len(steps) > 1 and r.random() < 0.3 else None}
    if x < 0.93:
        n = r.randint(1, 6)
        coefs = [float(r.choice([1, -1, 1, 2, -2])) for _ in range(n)]
        errs = [dyadic(r, 0, 4, 16) if r.random() < 0.9 else 0.0 for _ in range(n)]
        return {"kind": "opt3", "coefs": coefs, "errs": errs}
    if x < 0.97:
        dim = r.choice([1, 2, 3])
        m = r.randint(1, 12)
        X, y = gen_data(r, m, dim, tmin=r.choice([-1.0, -4.0, -4.0]))
        return {"kind": "constructor", "X": X, "y": y, "lam": gen_lam(r), "matrix": r.choice(["C", "I"])}
    line = r.choice(["AU 1,x", "CU", "CU -1,2", "SYSU 1/0 C 1,1", "SYSU 1/2 Q 1,1", "CNU 0", "RESU 0 C 1 1,2,3,4", "NORM", "OPT3 1,2 1", "frobnicate 1",
                     "SCALE 0 1", "ANU 0,1/2,1;0", "CNU 0,1/2,1;;", "OPT3 1,2 3,x", "data 1,2;3", "y a"])
    return {"kind": "malformed", "line": line}


GEN_NOISY_NEGATIVE_TARGETS = True    # repaired by fix-1-noisy-negative-targets
GEN_STD_AFTER_SA = True       # repaired by fix-2-train-after-spatially-adaptive


def gen_case(ctx, thorough, k):
    """base case + the hardening dimensions: caller overwrites its arrays, pre-scaled inputs, scale extremes with an own
    range per dimension, noisy_data, mixed training routes on one object, dimension 4, a DensityEstimation sibling"""
    r = ctx.rng
    case = gen_case_base(ctx, thorough, k)
    kind = case["kind"]
    if "gen" in case or kind in ("opt3", "malformed", "constructor"):
        return case
    dim = len(case["X"][0])
    if kind in ("train", "train-sa"):
        steps = case["steps"]
        if kind == "train" and r.random() < 0.06:
            X, y = gen_data(r, r.randint(20, 50), 4)
            case["X"], case["y"] = X, y
            for st in steps:
                st["lmin"], st["lmax"] = 1, 2
            case["options"] = [o for o in case["options"] if o != 1]
            dim = 4
        if r.random() < 0.15:
            case["X"], case["y"] = gen_data(r, len(case["X"]), dim, extremes=True)
            for st in steps:
                if r.random() < 0.7:
                    st["lam"] = gen_lam(r, extremes=True)
        if r.random() < 0.4:
            case["alias"] = True
        if r.random() < 0.1:
            case["prescaled"] = r.choice(["data", "training"])
        for st in steps:
            if r.random() < 0.1 and (GEN_NOISY_NEGATIVE_TARGETS or max(case["y"]) > 0 or route_of(case, st) == "sa"):
                st["noisy"] = True
        if kind == "train" and dim <= 3 and r.random() < 0.15:
            lam = gen_lam(r)
            steps.append({"route": "sa", "lam": lam, "matrix": r.choice(["C", "I", "I"]), "pct": r.choice([0.25, 0.5]), "margin": r.choice([0.5, 0.75]),
                          "tol": 1e-5, "max_evals": r.choice([0, 12, 25] if dim < 3 else [0, 30]), "lam_opticom": None})
            case["grids"] = 6
        elif kind == "train-sa" and GEN_STD_AFTER_SA and r.random() < 0.2:
            steps.append({"route": "std", "lam": gen_lam(r), "matrix": r.choice(["C", "I"]), "pct": r.choice([0.25, 0.5]), "lmin": 1,
                          "lmax": 3 if dim < 3 else 2, "lam_opticom": None})
            if dim == 3:
                case["options"] = [o for o in case["options"] if o != 1]
    elif kind in ("direct-uniform", "direct-nonuniform"):
        if kind == "direct-uniform" and r.random() < 0.05:
            X, y = gen_data(r, r.choice([16, 32, 20]), 4)
            case["X"], case["y"], case["lv"] = X, y, gen_lv(r, 4, thorough)
            dim = 4
        if r.random() < 0.12:
            case["X"], case["y"] = gen_data(r, len(case["X"]), dim, den=64, extremes=True)
            case["use_scaled"] = True         # only the constructor's scaling brings such samples into the unit cube
            case["lam"] = gen_lam(r, extremes=True)
    elif kind == "siblings":
        if r.random() < 0.25:
            case.pop("copyB", None)
            if "XB" not in case:
                case["XB"], case["yB"] = gen_data(r, r.randint(20, 50), dim)
            case["B_density"] = {"lambd": r.choice([0.0, 2.0 ** -6, 2.0 ** -3]), "lmin": 1, "lmax": 3 if dim < 3 else 2}
    return case


FIXED = [
    # the repo's own Opticom tests (test_Regression.py)
    {"kind": "train", "X": [[0.3]] * 4, "y": [1.0] * 4, "lam": 0.1, "matrix": "C", "pct": 0.5, "lmin": 1, "lmax": 3, "options": [1, 2, 3]},
    {"kind": "train-sa", "X": [[0.3]] * 4, "y": [1.0] * 4, "lam": 0.1, "matrix": "C", "pct": 0.5, "margin": 0.5, "tol": 1e-5, "max_evals": 0,
     "options": [1, 2, 3], "grids": 6},
    # histories on ONE Regression object: regularisation sweep / matrix switch / new split with the same level range; Opticom parameter
    # different from the regularisation value (set before the first training and between trainings)
    {"kind": "train", "X": [[0.125, 0.5], [0.75, 0.25], [0.5, 0.875], [0.25, 0.125], [0.875, 0.75], [0.375, 0.625], [0.625, 0.375], [0.0, 1.0],
                            [1.0, 0.0], [0.3125, 0.8125], [0.6875, 0.0625], [0.9375, 0.4375], [0.1875, 0.3125], [0.5625, 0.5625], [0.4375, 0.9375], [0.8125, 0.1875]],
     "y": [1.0, 2.0, -0.5, 0.25, 1.5, 0.75, -1.0, 0.5, 1.25, 0.0, 2.0, -0.75, 0.375, 1.125, 0.625, -0.25],
     "steps": [{"lam": 0.125, "matrix": "I", "pct": 0.25, "lmin": 1, "lmax": 3, "lam_opticom": 0.5},
               {"lam": 0.0078125, "matrix": "I", "pct": 0.25, "lmin": 1, "lmax": 3, "lam_opticom": None},
               {"lam": 0.0, "matrix": "C", "pct": 0.25, "lmin": 1, "lmax": 3, "lam_opticom": None},
               {"lam": 0.0625, "matrix": "C", "pct": 0.5, "lmin": 2, "lmax": 3, "lam_opticom": 2.0}],
     "options": [3, 2], "opticom_mid": [3]},
    {"kind": "train-sa", "X": [[0.125, 0.5], [0.75, 0.25], [0.5, 0.875], [0.25, 0.125], [0.875, 0.75], [0.375, 0.625], [0.625, 0.375], [0.0, 1.0],
                               [1.0, 0.0], [0.3125, 0.8125], [0.6875, 0.0625], [0.9375, 0.4375], [0.1875, 0.3125], [0.5625, 0.5625], [0.4375, 0.9375], [0.8125, 0.1875]],
     "y": [1.0, 2.0, -0.5, 0.25, 1.5, 0.75, -1.0, 0.5, 1.25, 0.0, 2.0, -0.75, 0.375, 1.125, 0.625, -0.25],
     "steps": [{"lam": 0.125, "matrix": "I", "pct": 0.25, "margin": 0.5, "tol": 1e-5, "max_evals": 20, "lam_opticom": 0.5},
               {"lam": 0.03125, "matrix": "I", "pct": 0.25, "margin": 0.5, "tol": 1e-5, "max_evals": 20, "lam_opticom": None},
               {"lam": 0.25, "matrix": "C", "pct": 0.5, "margin": 0.75, "tol": 1e-5, "max_evals": 12, "lam_opticom": 0.0}],
     "options": [3, 2], "opticom_mid": [3], "grids": 6},
    # hardening: a 255-point 1-D grid (the >= 200 grid point paths of the evaluation used by Opticom)
    {"kind": "train", "gen": {"m": 60, "dim": 1, "seed": 31}, "options": [3, 2], "alias": True,
     "steps": [{"lam": 0.125, "matrix": "C", "pct": 0.25, "lmin": 8, "lmax": 8, "lam_opticom": None}]},
    # train() followed by train_spatially_adaptive() on the same object; caller overwrites its arrays; noisy second training
    {"kind": "train", "gen": {"m": 40, "dim": 2, "seed": 32, "den": 32}, "options": [3], "alias": True, "grids": 6,
     "steps": [{"lam": 0.125, "matrix": "I", "pct": 0.25, "lmin": 1, "lmax": 3, "lam_opticom": None},
               {"lam": 0.03125, "matrix": "C", "pct": 0.25, "lmin": 1, "lmax": 3, "lam_opticom": None, "noisy": True},
               {"route": "sa", "lam": 0.0625, "matrix": "I", "pct": 0.25, "margin": 0.5, "tol": 1e-5, "max_evals": 12, "lam_opticom": None}]},
    # scale extremes: own range per dimension (far from the origin / tiny), targets * 2^20, huge and tiny regularisation values
    {"kind": "train", "gen": {"m": 40, "dim": 3, "seed": 33, "den": 32, "affine": [[1024.0, -524288.0], [9.5367431640625e-07, 0.0], [3.0, 1536.0]],
                              "yscale": 1048576.0}, "options": [3, 2], "alias": True,
     "steps": [{"lam": 1048576.0, "matrix": "C", "pct": 0.25, "lmin": 1, "lmax": 2, "lam_opticom": None},
               {"lam": 9.313225746154785e-10, "matrix": "I", "pct": 0.25, "lmin": 1, "lmax": 2, "lam_opticom": None}]},
    {"kind": "direct-uniform", "gen": {"m": 32, "dim": 2, "seed": 34, "den": 32, "affine": [[0.125, 64.0], [1024.0, -1024.0]], "yscale": 9.5367431640625e-07},
     "lam": 9.5367431640625e-07, "matrix": "C", "lv": [2, 2], "use_scaled": True},
    # pre-conditioned inputs: the training subset an earlier object scaled is fed back in; dimension 4
    {"kind": "train", "gen": {"m": 40, "dim": 2, "seed": 35, "den": 32}, "options": [3], "prescaled": "training",
     "steps": [{"lam": 0.125, "matrix": "C", "pct": 0.25, "lmin": 1, "lmax": 3, "lam_opticom": None}]},
    {"kind": "train", "gen": {"m": 40, "dim": 4, "seed": 36, "den": 32, "affine": [[1.0, 0.0], [0.5, 0.25], [0.25, 0.5], [2.0, -1.0]]}, "options": [3, 2],
     "steps": [{"lam": 0.125, "matrix": "C", "pct": 0.25, "lmin": 1, "lmax": 2, "lam_opticom": None}]},
    {"kind": "direct-uniform", "gen": {"m": 24, "dim": 4, "seed": 37, "den": 32}, "lam": 0.25, "matrix": "C", "lv": [1, 2, 1, 2]},
    # a DensityEstimation object (sibling subclass of MachineLearning) works on the same level vectors in between
    {"kind": "siblings", "variant": "standard", "gen": {"m": 30, "dim": 2, "seed": 38, "den": 32},
     "XB": [[0.25, 0.75], [0.5, 0.5], [0.875, 0.125], [0.125, 0.25], [0.625, 0.875], [0.375, 0.0], [1.0, 0.625], [0.0, 0.375], [0.75, 1.0], [0.5625, 0.3125]],
     "yB": [0.5, -1.0, 2.0, 1.75, 0.0, 0.25, -0.5, 1.0, 1.5, 0.875],
     "A": {"lam": 0.125, "matrix": "I", "pct": 0.25, "lmin": 1, "lmax": 3, "lam_opticom": None}, "B": {},
     "B_density": {"lambd": 0.015625, "lmin": 1, "lmax": 3}},
    # size stream: more than 4096 training points (not a multiple of a power of two), direct and through train()
    {"kind": "direct-uniform", "gen": {"m": 4760, "dim": 2, "seed": 11}, "lam": 0.125, "matrix": "I", "lv": [2, 1]},
    {"kind": "train", "gen": {"m": 7000, "dim": 1, "seed": 12}, "options": [],
     "steps": [{"lam": 0.0, "matrix": "C", "pct": 0.2, "lmin": 1, "lmax": 3, "lam_opticom": None}]},
    # sibling objects: B (fresh object / deepcopy of A with another lambda) trains the same level vectors, then A is observed again
    {"kind": "siblings", "variant": "standard", "X": [[0.125, 0.5], [0.75, 0.25], [0.5, 0.875], [0.25, 0.125], [0.875, 0.75], [0.375, 0.625], [0.625, 0.375], [0.0, 1.0],
                                                      [1.0, 0.0], [0.3125, 0.8125], [0.6875, 0.0625], [0.9375, 0.4375]],
     "y": [1.0, 2.0, -0.5, 0.25, 1.5, 0.75, -1.0, 0.5, 1.25, 0.0, 2.0, -0.75],
     "XB": [[0.25, 0.75], [0.5, 0.5], [0.875, 0.125], [0.125, 0.25], [0.625, 0.875], [0.375, 0.0], [1.0, 0.625], [0.0, 0.375], [0.75, 1.0], [0.5625, 0.3125]],
     "yB": [0.5, -1.0, 2.0, 1.75, 0.0, 0.25, -0.5, 1.0, 1.5, 0.875],
     "A": {"lam": 0.125, "matrix": "I", "pct": 0.25, "lmin": 1, "lmax": 3, "lam_opticom": None},
     "B": {"lam": 0.0, "matrix": "C", "pct": 0.25, "lmin": 1, "lmax": 3, "lam_opticom": None}},
    {"kind": "siblings", "variant": "standard", "copyB": True,
     "X": [[0.125], [0.75], [0.5], [0.25], [0.875], [0.375], [0.625], [0.0], [1.0], [0.3125], [0.6875], [0.9375]],
     "y": [1.0, 2.0, -0.5, 0.25, 1.5, 0.75, -1.0, 0.5, 1.25, 0.0, 2.0, -0.75],
     "A": {"lam": 0.0078125, "matrix": "C", "pct": 0.25, "lmin": 1, "lmax": 3, "lam_opticom": None},
     "B": {"lam": 1.0, "matrix": "I", "pct": 0.5, "lmin": 1, "lmax": 3, "lam_opticom": None}},
    {"kind": "siblings", "variant": "sa", "X": [[0.125, 0.5], [0.75, 0.25], [0.5, 0.875], [0.25, 0.125], [0.875, 0.75], [0.375, 0.625], [0.625, 0.375], [0.0, 1.0],
                                                [1.0, 0.0], [0.3125, 0.8125], [0.6875, 0.0625], [0.9375, 0.4375]],
     "y": [1.0, 2.0, -0.5, 0.25, 1.5, 0.75, -1.0, 0.5, 1.25, 0.0, 2.0, -0.75],
     "XB": [[0.25, 0.75], [0.5, 0.5], [0.875, 0.125], [0.125, 0.25], [0.625, 0.875], [0.375, 0.0], [1.0, 0.625], [0.0, 0.375], [0.75, 1.0], [0.5625, 0.3125]],
     "yB": [0.5, -1.0, 2.0, 1.75, 0.0, 0.25, -0.5, 1.0, 1.5, 0.875],
     "A": {"lam": 0.125, "matrix": "I", "pct": 0.25, "margin": 0.5, "tol": 1e-5, "max_evals": 12, "lam_opticom": None},
     "B": {"lam": 0.5, "matrix": "I", "pct": 0.25, "margin": 0.5, "tol": 1e-5, "max_evals": 12, "lam_opticom": None}},
    # the level vector / the grid of the repo's C-matrix tests
    {"kind": "direct-uniform", "X": [[0.25, 0.25], [0.5, 0.75]], "y": [1.0, 2.0], "lam": 0.125, "matrix": "C", "lv": [1, 2]},
    {"kind": "direct-nonuniform", "X": [[0.25], [0.75]], "y": [1.0, 2.0], "lam": 0.125, "matrix": "C", "stripes": [[0.0, 0.25, 0.5, 0.75, 1.0]]},
    # isotropic multi-dimensional grids (not covered by the anisotropy finding) and small non-uniform ones
    {"kind": "direct-uniform", "X": [[0.25, 0.5], [0.5, 0.75], [0.375, 0.125], [0.875, 0.625]], "y": [1.0, 2.0, -0.5, 0.25], "lam": 0.25, "matrix": "C", "lv": [2, 2]},
    {"kind": "direct-uniform", "X": [[0.25, 0.5, 0.75], [0.5, 0.75, 0.125], [0.375, 0.125, 0.5]], "y": [1.0, 2.0, -0.5], "lam": 0.5, "matrix": "C", "lv": [2, 2, 2]},
    {"kind": "direct-nonuniform", "X": [[0.25], [0.75], [0.375]], "y": [1.0, 2.0, 0.5], "lam": 0.125, "matrix": "C", "stripes": [[0.0, 0.25, 0.5, 1.0]]},
    {"kind": "direct-nonuniform", "X": [[0.25, 0.5], [0.75, 0.25]], "y": [1.0, 2.0], "lam": 0.125, "matrix": "C", "stripes": [[0.0, 0.5, 1.0], [0.0, 0.5, 1.0]]},
    # the grids of the Lean counterexamples (C_dimwise_not_psd_counterexample, C_dimwise_2d_counterexample)
    {"kind": "direct-nonuniform", "X": [[0.25], [0.75], [0.5625], [0.8125]], "y": [1.0, 2.0, 0.5, -0.25], "lam": 0.125, "matrix": "C",
     "stripes": [[0.0, 0.5, 0.625, 0.75, 0.875, 1.0]]},
    {"kind": "direct-nonuniform", "X": [[0.25, 0.375], [0.75, 0.125]], "y": [1.0, 2.0], "lam": 0.125, "matrix": "C",
     "stripes": [[0.0, 0.5, 1.0], [0.0, 0.25, 0.5, 1.0]]},
    # a feature with values 0, 1/2, 1: the scaled middle sample is one ulp left of the node 1/2
    {"kind": "direct-nonuniform", "X": [[0.0], [0.5], [1.0]], "y": [1.0, 2.0, 3.0], "lam": 0.0, "matrix": "C", "stripes": [[0.0, 0.5, 1.0]], "use_scaled": True},
    # exactly interpolated data: zero validation error in option 3
    {"kind": "train", "X": [[0.3]] * 4, "y": [1.0] * 4, "lam": 0.0, "matrix": "C", "pct": 0.5, "lmin": 1, "lmax": 3, "options": [3]},
    {"kind": "constructor", "X": [[0.5], [0.25]], "y": [-2.0, 1.0], "lam": 0.0, "matrix": "C"},
]


def nontrivial(case):
    k = case["kind"]
    if k in ("malformed",):
        return False
    if k == "opt3":
        return len(case["coefs"]) >= 2
    if "gen" in case:
        return case["gen"]["m"] >= 2
    return len(case["X"]) >= 2


def run(ctx):
    thorough = ctx.tier == "thorough"
    ctx.rule = ("fixed cases (the repo's own regression tests, one degenerate case per finding) then random cases: 30% one uniform component grid "
                "(dim 1-3, levels 1-4, 8-48 dyadic samples, lambda in {0, 2^-k, 1}, matrix C/I: A, C, left/right side, solve), 28% one non-uniform "
                "dimension-wise grid (random dyadic bisection), 18% Regression(default args).train + all component grids + Opticom 1-3, 12% "
                "train_spatially_adaptive (every grid observed by subclassing) + Opticom 1-3, both as HISTORIES of 1-3 trainings on one object with changed "
                "regularization / matrix / regularization_opticom / split / level range, checked after every training, 4% SIBLING objects (fresh object or deepcopy trains the same level vectors, the first object is observed again), "
                "1-2% SIZE stream (4097-11000 samples, dim 1-2, levels <= 3, direct and through train()); on top of these: caller overwrites its arrays (40% of the "
                "histories), pre-scaled inputs (10%), own affine range per dimension + target scale 2^-20..2^20 + lambda 2^-30..2^20 (12-15%), noisy_data (10% of the steps), "
                "train() then train_spatially_adaptive() on one object (15%), dimension 4 (5-6%), a DensityEstimation sibling (25% of the sibling cases), every query "
                "repeated and its result overwritten by the caller, evaluations between trainings; 5% option-3 arithmetic, 4% constructor, 3% malformed lines; "
                "distinct by full case content; non-trivial if at least 2 samples")
    ctx.assumptions = [
        "numpy.linalg.lstsq returns an exact solution of a solvable system (modelled as: alpha solves the system); checked at 1e-8 relative",
        "sklearn MinMaxScaler = affine min-max map (checked by correspondence at 1e-12); train_test_split only selects rows",
        "floating-point rounding is not modelled; dyadic inputs make A exact, everything else is compared at 1e-12 (expressions) / 1e-8 (solves)",
    ]
    ctx.extra["validated_only"] = ["contents of the Opticom matrices of options 1 and 2 (only the final normalisation is modelled)",
                                   "gradient Gram matrix of anisotropic / non-uniform grids (the code's matrices differ: proved counterexamples, known findings)"]
    drv = ctx.driver("drv_c20")
    n = 400 if not thorough else 3000
    budget = 85 if not thorough else 560
    k = 0
    first_bad = None
    for case in FIXED:
        ok = guarded(ctx, drv, case)
        ctx.case(case, nontrivial=nontrivial(case), sample=summary(case) if k < 2 else None)
        ctx.count("kind_" + case["kind"])
        k += 1
        if not ok and first_bad is None:
            first_bad = k
    for i in range(n):
        if ctx.time_left(budget) < 0:
            break
        case = gen_case(ctx, thorough, i)
        ok = guarded(ctx, drv, case)
        ctx.case(case, nontrivial=nontrivial(case), sample=summary(case) if k < 4 else None)
        ctx.count("kind_" + case["kind"])
        k += 1
        if not ok and first_bad is None:
            first_bad = k
        # after a disagreement keep searching for an input on which the property itself fails
        if len(ctx.violations) >= ctx.max_reports or (first_bad is not None and ctx.violations and len(ctx.corr_breaks) >= ctx.max_reports) \
                or (first_bad is not None and k - first_bad > 120):
            break


def summary(case):
    s = {k: v for k, v in case.items() if k not in ("X", "y")}
    if "X" in case:
        s["samples"] = len(case["X"])
        s["dim"] = len(case["X"][0])
    return s


def guarded(ctx, drv, case):
    try:
        return run_case(ctx, drv, case)
    except Exception as e:
        import traceback
        import common
        frames = traceback.extract_tb(e.__traceback__)
        here = os.path.dirname(os.path.abspath(__file__))
        repo = os.path.realpath(common.REPO)
        last_harness = max([i for i, f in enumerate(frames) if os.path.abspath(f.filename).startswith(here)] + [-1])
        impl = [f for f in frames[last_harness + 1:] if os.path.realpath(f.filename).startswith(repo)]
        if impl:      # raised inside (or below) the implementation on a generated, valid input: a violation, not a harness crash
            ctx.violation("exception", {"kind": case.get("kind"), "error": type(e).__name__, "where": impl[-1].name}, case,
                          {"error": repr(e)[:300], "at": "%s:%d" % (os.path.basename(impl[-1].filename), impl[-1].lineno)})
            ctx.count("exception_in_implementation")
            return False
        ctx.corr_break("C20/harness-exception", case, {"traceback": traceback.format_exc()[-1500:]})
        return False


def replay(ctx, rp):
    case = rp["case"]
    drv = ctx.driver("drv_c20")
    ok = guarded(ctx, drv, case)
    known = sum(v[1] for v in ctx.known_hits.values())
    print("replay: %s" % ("property holds and model agrees on this case" if ok and not known else
                          ("only listed known findings reproduce" if ok else "REPRODUCED")))
    for v in ctx.violations[:4]:
        print("  violation:", v["probe"], v["tags"], v["detail"])
    for c in ctx.corr_breaks[:4]:
        print("  disagreement:", c["observable"], c["detail"])
    for d in ctx._drivers:
        d.close()
    return 0 if ok else 1
