import SparseSpace.Lemmas.Gram
/-! Hat functions of `DensityEstimation`: every code path equals the piecewise-linear specification `hatSpec`. -/
namespace SparseSpace.Gram


/-- the hat function as a piecewise-linear function (specification): 1 at `p`, 0 at `lo`, `hi` and outside -/
def hatSpec (h : Hat1) (x : ℚ) : ℚ :=
  if x ≤ h.lo ∨ h.hi ≤ x then 0 else if x ≤ h.p then (x - h.lo) / (h.p - h.lo) else (h.hi - x) / (h.hi - h.p)

theorem one_sub_div (d t : ℚ) (hd : 0 < d) : 1 - (1 / d) * t = (d - t) / d := by
  field_simp

theorem hatNS1_eq_spec (h : Hat1) (h1 : h.lo < h.p) (h2 : h.p < h.hi) (x : ℚ) : hatNS1 h x = hatSpec h x := by
  unfold hatNS1 hatSpec
  have d1 : 0 < h.p - h.lo := by linarith
  have d2 : 0 < h.hi - h.p := by linarith
  rw [one_sub_div _ _ d2, one_sub_div _ _ d1, rmax_eq_max, rmax_eq_max]
  rcases lt_trichotomy x h.p with hx | hx | hx
  · rw [if_neg (by linarith : ¬ x > h.p), if_pos hx]
    by_cases hlo : x ≤ h.lo
    · rw [if_pos (Or.inl hlo)]
      apply max_eq_left
      apply div_nonpos_of_nonpos_of_nonneg <;> linarith
    · have hhi : ¬ h.hi ≤ x := by intro hh; linarith
      rw [if_neg (by tauto), if_pos hx.le]
      have e : h.p - h.lo - (h.p - x) = x - h.lo := by ring
      rw [e]
      exact max_eq_right (div_nonneg (by linarith [not_le.mp hlo]) d1.le)
  · subst hx
    rw [if_neg (lt_irrefl _), if_neg (lt_irrefl _), if_neg (by intro hh; rcases hh with hh | hh <;> linarith),
      if_pos (le_refl _), div_self (ne_of_gt d1)]
  · rw [if_pos hx]
    by_cases hhi : h.hi ≤ x
    · rw [if_pos (Or.inr hhi)]
      apply max_eq_left
      apply div_nonpos_of_nonpos_of_nonneg <;> linarith
    · have hlo : ¬ x ≤ h.lo := by intro hh; linarith
      rw [if_neg (by tauto), if_neg (by linarith : ¬ x ≤ h.p)]
      have e : h.hi - h.p - (x - h.p) = h.hi - x := by ring
      rw [e]
      exact max_eq_right (div_nonneg (by linarith [not_le.mp hhi]) d2.le)


theorem hatCV1_eq_spec (h : Hat1) (h1 : h.lo < h.p) (h2 : h.p < h.hi) (x : ℚ) : hatCV1 h x = hatSpec h x := by
  unfold hatCV1 hatSpec
  have d1 : 0 < h.p - h.lo := by linarith
  have d2 : 0 < h.hi - h.p := by linarith
  have e1 : 1 - (x - h.p) / (h.hi - h.p) = (h.hi - x) / (h.hi - h.p) := by field_simp; ring
  have e2 : 1 - (h.p - x) / (h.p - h.lo) = (x - h.lo) / (h.p - h.lo) := by field_simp; ring
  simp only [e1, e2, if_pos (ne_of_gt h2), if_pos (ne_of_lt h1)]
  have c1 : x - h.p < 0 ↔ x < h.p := by constructor <;> intro <;> linarith
  have c2 : (h.hi - x) / (h.hi - h.p) < 0 ↔ h.hi < x := by
    rw [div_neg_iff]
    constructor
    · rintro (⟨_, hh⟩ | ⟨hh, _⟩) <;> linarith
    · intro hh; right; constructor <;> linarith
  have c3 : (h.p - x < 0 ∨ (h.p - x = 0 ∧ h.hi ≠ h.p)) ↔ h.p ≤ x := by
    constructor
    · rintro (hh | ⟨hh, _⟩) <;> linarith
    · intro hh
      rcases lt_or_eq_of_le hh with hlt | heq
      · left; linarith
      · right; exact ⟨by linarith, ne_of_gt h2⟩
  have c4 : (x - h.lo) / (h.p - h.lo) < 0 ↔ x < h.lo := by
    rw [div_neg_iff]
    constructor
    · rintro (⟨_, hh⟩ | ⟨hh, _⟩) <;> linarith
    · intro hh; right; constructor <;> linarith
  simp only [c1, c2, c3, c4]
  rcases lt_trichotomy x h.p with hx | hx | hx
  · rw [if_pos hx, if_neg (by linarith : ¬ h.p ≤ x), zero_add]
    by_cases hlo : x < h.lo
    · rw [if_pos hlo, if_pos (Or.inl hlo.le)]
    · rw [if_neg hlo]
      by_cases hle : x ≤ h.lo
      · have : x = h.lo := le_antisymm hle (not_lt.mp hlo)
        rw [if_pos (Or.inl hle), this]; simp
      · rw [if_neg (by intro hh; rcases hh with hh | hh <;> [exact hle hh; linarith]), if_pos hx.le]
  · subst hx
    rw [if_neg (lt_irrefl _), if_neg (by linarith : ¬ h.hi < h.p), if_pos (le_refl _), add_zero,
      if_neg (by intro hh; rcases hh with hh | hh <;> linarith), if_pos (le_refl _), div_self (ne_of_gt d2), div_self (ne_of_gt d1)]
  · rw [if_neg (by linarith : ¬ x < h.p), if_pos hx.le, add_zero]
    by_cases hhi : h.hi < x
    · rw [if_pos hhi, if_pos (Or.inr hhi.le)]
    · rw [if_neg hhi]
      by_cases hge : h.hi ≤ x
      · have : x = h.hi := le_antisymm (not_lt.mp hhi) hge
        rw [if_pos (Or.inr hge), this]; simp
      · rw [if_neg (by intro hh; rcases hh with hh | hh <;> [linarith; exact hge hh]), if_neg (by linarith : ¬ x ≤ h.p)]

theorem ceil_of_unit (t : ℚ) (h0 : 0 < t) (h1 : t ≤ 1) : Rat.ceil t = 1 := by
  have a : Rat.ceil t ≤ 1 := Rat.ceil_le_iff.mpr (by simpa using h1)
  have b : (0 : ℤ) < Rat.ceil t := Rat.lt_ceil_iff.mpr (by simpa using h0)
  omega

theorem ceil_of_neg_unit (t : ℚ) (h0 : -1 < t) (h1 : t ≤ 0) : Rat.ceil t = 0 := by
  have a : Rat.ceil t ≤ 0 := Rat.ceil_le_iff.mpr (by simpa using h1)
  have b : (-1 : ℤ) < Rat.ceil t := Rat.lt_ceil_iff.mpr (by simpa using h0)
  omega

theorem hatV1_eq_spec (h : Hat1) (h1 : h.lo < h.p) (h2 : h.p < h.hi) (w1 : h.p - h.lo < 1) (w2 : h.hi - h.p < 1)
    (x : ℚ) (hx1 : h.lo ≤ x) (hx2 : x ≤ h.hi) : hatV1 h x = hatSpec h x := by
  unfold hatV1 hatSpec ceilEps
  have d1 : 0 < h.p - h.lo := by linarith
  have d2 : 0 < h.hi - h.p := by linarith
  have e1 : 1 - (x - h.p) / (h.hi - h.p) = (h.hi - x) / (h.hi - h.p) := by field_simp; ring
  have e2 : 1 - (h.p - x) / (h.p - h.lo) = (x - h.lo) / (h.p - h.lo) := by field_simp; ring
  rw [e1, e2]
  rcases lt_trichotomy x h.p with hx | hx | hx
  · rw [if_neg (by linarith : ¬ x - h.p = 0), ceil_of_neg_unit (x - h.p) (by linarith) (by linarith),
      ceil_of_unit (h.p - x) (by linarith) (by linarith)]
    simp only [Int.cast_zero, Int.cast_one, mul_zero, mul_one, zero_add]
    by_cases hlo : x ≤ h.lo
    · have : x = h.lo := le_antisymm hlo hx1
      rw [if_pos (Or.inl hlo), this]; simp
    · rw [if_neg (by intro hh; rcases hh with hh | hh <;> [exact hlo hh; linarith]), if_pos hx.le]
  · subst hx
    rw [if_pos (sub_self _), sub_self, if_neg (by intro hh; rcases hh with hh | hh <;> linarith), if_pos (le_refl _)]
    have c0 : Rat.ceil 0 = 0 := ceil_of_neg_unit 0 (by norm_num) (le_refl _)
    simp [div_self (ne_of_gt d2), div_self (ne_of_gt d1), c0]
  · rw [if_neg (by linarith : ¬ x - h.p = 0), ceil_of_unit (x - h.p) (by linarith) (by linarith),
      ceil_of_neg_unit (h.p - x) (by linarith) (by linarith)]
    simp only [Int.cast_zero, Int.cast_one, mul_zero, mul_one, add_zero]
    by_cases hhi : h.hi ≤ x
    · have : x = h.hi := le_antisymm hx2 hhi
      rw [if_pos (Or.inr hhi), this]; simp
    · rw [if_neg (by intro hh; rcases hh with hh | hh <;> [linarith; exact hhi hh]), if_neg (by linarith : ¬ x ≤ h.p)]


theorem hatSpec_at_p (h : Hat1) (h1 : h.lo < h.p) (h2 : h.p < h.hi) : hatSpec h h.p = 1 := by
  unfold hatSpec
  rw [if_neg (by intro hh; rcases hh with hh | hh <;> linarith), if_pos (le_refl _), div_self (by linarith)]

theorem hatSpec_outside (h : Hat1) (x : ℚ) (hx : x ≤ h.lo ∨ h.hi ≤ x) : hatSpec h x = 0 := by
  unfold hatSpec; rw [if_pos hx]

theorem hatSpec_nonneg (h : Hat1) (h1 : h.lo < h.p) (h2 : h.p < h.hi) (x : ℚ) : 0 ≤ hatSpec h x := by
  unfold hatSpec
  split_ifs with a b
  · exact le_refl _
  · push Not at a; exact div_nonneg (by linarith) (by linarith)
  · push Not at a; exact div_nonneg (by linarith) (by linarith)

theorem hatSpec_le_one (h : Hat1) (h1 : h.lo < h.p) (h2 : h.p < h.hi) (x : ℚ) : hatSpec h x ≤ 1 := by
  unfold hatSpec
  split_ifs with a b
  · exact zero_le_one
  · rw [div_le_one (by linarith)]; linarith
  · push Not at b; rw [div_le_one (by linarith)]; linarith

/-- the uniform hat of level `l` and index `i` (clipped form) is the hat on the nodes `(i-1)/2^l, i/2^l, (i+1)/2^l` -/
theorem hatU1_eq_spec (l : ℕ) (i : ℤ) (x : ℚ) : hatU1 l i x = hatSpec (uHat l i) x := by
  unfold hatU1 hatSpec uHat
  have hs : (0 : ℚ) < 2 ^ l := by positivity
  rw [rmax_eq_max, rabs_eq_abs]
  simp only
  set s : ℚ := 2 ^ l with hsdef
  have c1 : x ≤ ((i : ℚ) - 1) / s ↔ s * x - i ≤ -1 := by rw [le_div_iff₀ hs]; constructor <;> intro <;> linarith
  have c2 : ((i : ℚ) + 1) / s ≤ x ↔ 1 ≤ s * x - i := by rw [div_le_iff₀ hs]; constructor <;> intro <;> linarith
  have c3 : x ≤ (i : ℚ) / s ↔ s * x - i ≤ 0 := by rw [le_div_iff₀ hs]; constructor <;> intro <;> linarith
  have e1 : (x - ((i : ℚ) - 1) / s) / ((i : ℚ) / s - ((i : ℚ) - 1) / s) = 1 + (s * x - i) := by field_simp; ring
  have e2 : (((i : ℚ) + 1) / s - x) / (((i : ℚ) + 1) / s - (i : ℚ) / s) = 1 - (s * x - i) := by field_simp; ring
  simp only [c1, c2, c3, e1, e2]
  generalize s * x - (i : ℚ) = t
  by_cases h1 : t ≤ -1
  · rw [if_pos (Or.inl h1), abs_of_neg (by linarith)]; exact max_eq_right (by linarith)
  by_cases h2 : 1 ≤ t
  · rw [if_pos (Or.inr h2), abs_of_pos (by linarith)]; exact max_eq_right (by linarith)
  rw [if_neg (by tauto)]
  push Not at h1 h2
  by_cases h3 : t ≤ 0
  · rw [if_pos h3, abs_of_nonpos h3]; rw [max_eq_left (by linarith)]; ring
  · push Not at h3; rw [if_neg (by linarith), abs_of_pos h3]; exact max_eq_left (by linarith)

/-- the unclipped in-support variants agree with the clipped hat exactly when `|2^l x - i| <= 1` -/
theorem hatUin1_eq_hatU1 (l : ℕ) (i : ℤ) (x : ℚ) (h : |(2 : ℚ) ^ l * x - i| ≤ 1) : hatUin1 l i x = hatU1 l i x := by
  unfold hatUin1 hatU1
  rw [rmax_eq_max, rabs_eq_abs, max_eq_left (by linarith)]


end SparseSpace.Gram
