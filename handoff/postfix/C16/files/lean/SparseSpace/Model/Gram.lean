/-!
# Model of `DensityEstimation` (sparseSpACE/GridOperation.py) — system matrix, right-hand side, hat functions,
normalisation (properties C16, C17).  Import-free, exact rational arithmetic.

Conventions: a 1-D *stripe* is the sorted node list of one dimension INCLUDING the two domain ends
(`gridPointCoordsAsStripes[d]`); the grid has no boundary points (`grid.boundary == False`, the only configuration
`evaluate_levelvec` admits), so the hats sit on the interior nodes.  A d-dimensional hat is a list of 1-D hats, its
value the product of the 1-D values (as coded).  `itertools.product` order: last dimension fastest.
-/
namespace SparseSpace.Gram

/-- Python `max(a, b)` (returns `a` unless `b` is larger) -/
def rmax (a b : Rat) : Rat := if a < b then b else a
/-- Python `min(a, b)` -/
def rmin (a b : Rat) : Rat := if b < a then b else a
/-- Python `abs` -/
def rabs (a : Rat) : Rat := if a < 0 then -a else a
/-- `np.prod` of a list -/
def lprod : List Rat → Rat
  | [] => 1
  | x :: xs => x * lprod xs

/-- one dimension of a hat function: centre `p`, support `[lo, hi]` (`point[d]`, `domain[d]`) -/
structure Hat1 where
  p : Rat
  lo : Rat
  hi : Rat
deriving Repr, DecidableEq

/-- `itertools.product` / `get_cross_product_list` -/
def cross {α : Type} : List (List α) → List (List α)
  | [] => [[]]
  | l :: rest => l.flatMap fun a => (cross rest).map (a :: ·)

/-! ## hat functions, non-uniform (dimension-wise) grids -/

/-- one factor of `hat_function_non_symmetric` (scalar path; `grid.modified_basis == False`): right flank for `x > p`, left
    flank for `x < p`, and no factor (1) at the node itself -/
def hatNS1 (h : Hat1) (x : Rat) : Rat :=
  if x > h.p then rmax 0 (1 - (1 / (h.hi - h.p)) * (x - h.p))
  else if x < h.p then rmax 0 (1 - (1 / (h.p - h.lo)) * (h.p - x))
  else 1

/-- one factor of `hat_function_non_symmetric_completely_vectorized`:
    `value1` (right flank `1 - (x-p)/(hi-p)`; zeroed when `x - p < 0` or the value is `< 0`) plus `value2` (left flank
    `1 - (p-x)/(p-lo)`; zeroed when `p - x < 0`, when `p - x == 0` and the hat HAS a right flank (`hi != p`), or when the value
    is `< 0`); the `filter_upper/filter_lower` masks skip a flank whose end coincides with the centre (boundary nodes of
    grids with boundary points: such a half hat is 1 at its node through the remaining flank) -/
def hatCV1 (h : Hat1) (x : Rat) : Rat :=
  let v1 := if h.hi ≠ h.p then
      (let d := x - h.p; let t := 1 - d / (h.hi - h.p); if d < 0 then 0 else if t < 0 then 0 else t) else 0
  let v2 := if h.lo ≠ h.p then
      (let d := h.p - x; let t := 1 - d / (h.p - h.lo)
       if d < 0 ∨ (d = 0 ∧ h.hi ≠ h.p) then 0 else if t < 0 then 0 else t) else 0
  v1 + v2

/-- `np.ceil(t + 10 ** -30)` in double arithmetic: the tiny offset only matters at `t = 0` -/
def ceilEps (t : Rat) : Rat := if t = 0 then 1 else ((Rat.ceil t : Int) : Rat)

/-- one factor of `hat_function_non_symmetric_vectorized` (no clipping; switches are `np.ceil`s) -/
def hatV1 (h : Hat1) (x : Rat) : Rat :=
  (1 - (x - h.p) / (h.hi - h.p)) * ceilEps (x - h.p) + (1 - (h.p - x) / (h.p - h.lo)) * ((Rat.ceil (h.p - x) : Int) : Rat)

def hatNS (h : List Hat1) (x : List Rat) : Rat := lprod (List.zipWith hatNS1 h x)
def hatCV (h : List Hat1) (x : List Rat) : Rat := lprod (List.zipWith hatCV1 h x)
def hatV (h : List Hat1) (x : List Rat) : Rat := lprod (List.zipWith hatV1 h x)

/-! ## hat functions, uniform component grids of level `l` (index `i`, centre `i / 2^l`) -/

/-- one factor of `hat_function` and of `hat_function_in_support_completely_vectorized` (clipped at 0) -/
def hatU1 (l : Nat) (i : Int) (x : Rat) : Rat := rmax (1 - rabs ((2 : Rat) ^ l * x - (i : Rat))) 0

/-- one factor of `hat_function_in_support` / `hat_function_in_support_vectorized` (NOT clipped) -/
def hatUin1 (l : Nat) (i : Int) (x : Rat) : Rat := 1 - rabs ((2 : Rat) ^ l * x - (i : Rat))

def hatU : List Nat → List Int → List Rat → Rat
  | l :: ls, i :: is, x :: xs => hatU1 l i x * hatU ls is xs
  | _, _, _ => 1
def hatUin : List Nat → List Int → List Rat → Rat
  | l :: ls, i :: is, x :: xs => hatUin1 l i x * hatUin ls is xs
  | _, _, _ => 1

/-- one dimension of `get_hats_in_support`: `floor` and `ceil` of `x / 2^-l`, kept when `0 < s <= numPoints`, as a set -/
def hatsInSupport1 (l : Nat) (x : Rat) : List Int :=
  let n : Int := 2 ^ l - 1
  let lower := Rat.floor ((2 : Rat) ^ l * x)
  let upper := Rat.ceil ((2 : Rat) ^ l * x)
  let keep := fun (s : Int) => decide (0 < s) && decide (s ≤ n)
  if lower = upper then [lower].filter keep else [lower, upper].filter keep

/-- `get_hats_in_support` (empty unless the point lies in the closed unit cube) -/
def hatsInSupport (lv : List Nat) (x : List Rat) : List (List Int) :=
  if x.all (fun c => decide (0 ≤ c) && decide (c ≤ 1)) then cross (List.zipWith hatsInSupport1 lv x) else []

/-! ## supports of the hats of a stripe -/

/-- neighbours of every interior node (`np.roll(coords, ∓1)[1:-1]`) -/
def hats1D : List Rat → List Hat1
  | a :: b :: c :: rest => ⟨b, a, c⟩ :: hats1D (b :: c :: rest)
  | _ => []

/-- `get_hat_domain_for_every_grid_point_vectorized`, one dimension, `boundary == False`:
    a stripe of three nodes is given the support `[0, 1]` (as coded), otherwise the neighbouring nodes -/
def hatDomains1D (nodes : List Rat) : List Hat1 :=
  match nodes with
  | [_, b, _] => [⟨b, 0, 1⟩]
  | _ => hats1D nodes

/-- all hats of the tensor grid, in the order of `points` / `point_list` -/
def hatsND (stripes : List (List Rat)) : List (List Hat1) := cross (stripes.map hatDomains1D)

/-- `get_hat_domain`, one dimension: largest node below / smallest node above, defaults 0 and 1 -/
def getHatDomain1 (nodes : List Rat) (p : Rat) : Hat1 :=
  ⟨p, (nodes.filter (· < p)).foldl rmax 0, (nodes.filter (p < ·)).foldl rmin 1⟩

/-- the interior nodes `coords[1:-1]` -/
def interior (nodes : List Rat) : List Rat := (nodes.drop 1).dropLast

/-- hats with the supports found by `get_hat_domain` (large-grid paths) -/
def hatsNDsearch (stripes : List (List Rat)) : List (List Hat1) :=
  cross (stripes.map fun nodes => (interior nodes).map (getHatDomain1 nodes))

/-- uniform hat of level `l`, index `i`, as a non-uniform hat -/
def uHat (l : Nat) (i : Int) : Hat1 := ⟨(i : Rat) / 2 ^ l, ((i : Rat) - 1) / 2 ^ l, ((i : Rat) + 1) / 2 ^ l⟩

/-! ## analytic matrix entries (`calculate_R_value_analytically`) -/

/-- `integral_calc`: antiderivative of `(1 - m (q - x)) (1 - m (x - p))` as written in the code -/
def integralCalc (x m p q : Rat) : Rat :=
  (1 / 2) * m ^ 2 * x ^ 2 * (p + q) - (1 / 3) * m ^ 2 * x ^ 3 - x * (m * p + 1) * (m * q - 1)

/-- `integral_1`: antiderivative of the squared left flank -/
def integral1 (x m p : Rat) : Rat := -((m * (p - x) - 1) ^ 3 / (3 * m))
/-- `integral_2`: antiderivative of the squared right flank -/
def integral2 (x m p : Rat) : Rat := -((m * (p - x) + 1) ^ 3 / (3 * m))

/-- the factor one dimension contributes to `res` -/
def rValue1 (hi hj : Hat1) : Rat :=
  if hi.p ≠ hj.p then
    let m := 1 / rabs (hi.p - hj.p)
    let a := rmin hi.p hj.p
    let b := rmax hi.p hj.p
    integralCalc b m a b - integralCalc a m a b
  else
    let left := if hi.p ≠ hi.lo then
        (let m1 := 1 / rabs (hi.p - hi.lo); integral1 hi.p m1 hi.p - integral1 hi.lo m1 hi.p) else 0
    let right := if hi.p ≠ hj.hi then
        (let m2 := 1 / rabs (hj.hi - hj.p); integral2 hi.hi m2 hi.p - integral2 hi.p m2 hi.p) else 0
    left + right

/-- the adjacency test `all(domain_i[d][0] <= point_j[d] <= domain_i[d][1])` -/
def adjacent : List Hat1 → List Hat1 → Bool
  | i :: is, j :: js => decide (i.lo ≤ j.p) && decide (j.p ≤ i.hi) && adjacent is js
  | _, _ => true

def rProd : List Hat1 → List Hat1 → Rat
  | i :: is, j :: js => rValue1 i j * rProd is js
  | _, _ => 1

/-- `calculate_R_value_analytically(point_i, domain_i, point_j, domain_j)` -/
def rValue (I J : List Hat1) : Rat := if adjacent I J then rProd I J else 0

/-- `enumerate` -/
def enum {α : Type} (l : List α) : List (Nat × α) := (List.range l.length).zip l

/-- the loops `for i: for j in range(i, n): R[i][j] = R[j][i] = res; if i == j: R[i][j] += lambd`
    for an arbitrary entry function, as a recursion over the outer loop: iteration `i = h` writes row `h` from the
    diagonal on and the mirrored column entries of all later rows — an entry is always computed from the pair with the
    SMALLER index first -/
def symFill {α : Type} (f : α → α → Rat) (lam : Rat) : List α → List (List Rat)
  | [] => []
  | h :: t => ((f h h + lam) :: t.map (f h)) :: List.zipWith (fun J row => f h J :: row) t (symFill f lam t)

/-- `build_R_matrix_dimension_wise`, `masslumping == False` (analytic entries) -/
def buildRDW (stripes : List (List Rat)) (lam : Rat) : List (List Rat) := symFill rValue lam (hatsND stripes)

/-- `build_R_matrix_dimension_wise`, `masslumping == True`: the vector `R[i] = res + lambd` -/
def buildRDWlumped (stripes : List (List Rat)) (lam : Rat) : List Rat :=
  (hatsND stripes).map fun I => rValue I I + lam

/-! ## uniform component grids (`build_R_matrix`) -/

/-- `2 ** (levelvec[k] - 1)` -/
def half2 (l : Nat) : Rat := (2 : Rat) ^ l / 2

/-- one dimension of the inner loop; `none` is the `res = 0; break` branch -/
def uEntry1 (l : Nat) (i j : Int) : Option Rat :=
  if i = j then some (1 / (half2 l * 3))
  else if rmax (((i : Rat) - 1) * half2 l) (((j : Rat) - 1) * half2 l)
          ≥ rmin (((i : Rat) + 1) * half2 l) (((j : Rat) + 1) * half2 l) then none
  else some (1 / (half2 l * 12))

def uEntry : List Nat → List Int → List Int → Rat
  | l :: ls, i :: is, j :: js => match uEntry1 l i j with
      | none => 0
      | some v => v * uEntry ls is js
  | _, _, _ => 1

/-- `diag_val` -/
def uDiag (lv : List Nat) : Rat := lprod (lv.map fun l => 1 / (half2 l * 3))

/-- `index_list = get_cross_product_range_list(numPoints) + 1`, `numPoints = 2^l - 1` -/
def uIndexList (lv : List Nat) : List (List Int) :=
  cross (lv.map fun l => (List.range (2 ^ l - 1)).map fun (k : Nat) => (k : Int) + 1)

/-- `build_R_matrix`, `masslumping == False`: diagonal `diag_val + lambd`, off-diagonal entries (computed for `i < j`
    and mirrored) by the 1/3–1/12 rule -/
def buildRU (lv : List Nat) (lam : Rat) : List (List Rat) :=
  symFill (fun I J => if I = J then uDiag lv else uEntry lv I J) lam (uIndexList lv)

/-! ## right-hand side -/

/-- small-grid path of `calculate_B_dimension_wise` (`N < 200`): completely vectorised hats, class signs, `b *= 1/M` -/
def bSmallDW (stripes : List (List Rat)) (data : List (List Rat)) (sg : List Rat) : List Rat :=
  (hatsND stripes).map fun h => ((List.zipWith (fun x s => hatCV h x * s) data sg).sum) * (1 / (data.length : Rat))

/-- `take_closest` without `skip_equal_point`: the two nodes around `bisect_left` (position 0 is moved to 1) -/
def takeClosest : List Rat → Rat → List Rat
  | a :: b :: rest, x => if x ≤ b then [a, b] else
      (match rest with
       | [] => [a, b]      -- Python asserts here (point right of the last node); never used on data in the cube
       | _ => takeClosest (b :: rest) x)
  | _, _ => []

/-- `get_neighbors_optimized(point)[0]` with `return_boundary == False`: per dimension the closest nodes that are not 0 or 1;
    a three-node stripe always yields its middle node -/
def neighbours (stripes : List (List Rat)) (x : List Rat) : List (List Rat) :=
  cross (List.zipWith (fun nodes c =>
    match nodes with
    | [_, b, _] => [b]
    | _ => (takeClosest nodes c).filter fun h => h ≠ 0 ∧ h ≠ 1) stripes x)

/-- large-grid path of `calculate_B_dimension_wise` (`N >= 200`): per sample only the neighbouring hats are
    visited, evaluated by the scalar `hat_function_non_symmetric` on the support found by `get_hat_domain` -/
def bLargeDW (stripes : List (List Rat)) (data : List (List Rat)) (sg : List Rat) : List Rat :=
  (hatsNDsearch stripes).map fun h =>
    ((List.zipWith (fun x s => if (h.map (·.p)) ∈ neighbours stripes x then hatNS h x * s else 0) data sg).sum)
      * (1 / (data.length : Rat))

/-- small-grid path of `calculate_B` (`N < 200`) -/
def bSmallU (lv : List Nat) (data : List (List Rat)) (sg : List Rat) : List Rat :=
  (uIndexList lv).map fun I => ((List.zipWith (fun x s => hatU lv I x * s) data sg).sum) * (1 / (data.length : Rat))

/-- large-grid path of `calculate_B` (`N >= 200`): `get_hats_in_support` + unclipped hats -/
def bLargeU (lv : List Nat) (data : List (List Rat)) (sg : List Rat) : List Rat :=
  (uIndexList lv).map fun I =>
    ((List.zipWith (fun x s => if I ∈ hatsInSupport lv x then hatUin lv I x * s else 0) data sg).sum)
      * (1 / (data.length : Rat))

/-! ## quadrature weights and normalisation of the surpluses -/

/-- interior trapezoidal weights `compute_weights(...)[1:-1]` (no modified basis) -/
def trapWeights1D : List Rat → List Rat
  | a :: b :: c :: rest => ((1 / 2) * (b - a) + (1 / 2) * (c - b)) :: trapWeights1D (b :: c :: rest)
  | _ => []

/-- `grid.get_weights()`: products over the dimensions, order of the points -/
def trapWeights (stripes : List (List Rat)) : List Rat := (cross (stripes.map trapWeights1D)).map lprod

def dot (a b : List Rat) : Rat := (List.zipWith (· * ·) a b).sum
/-- `alphas.clip(min=0.0)` -/
def posPart (a : List Rat) : List Rat := a.map fun v => rmax v 0

/-- tail of `solve_density_estimation_dimension_wise` (and of the weighted branch of `solve_density_estimation`):
    with classes the weighted mean is subtracted; then division by the weighted mean of the positive parts unless it is 0 -/
def normaliseW (classes : Bool) (w alpha : List Rat) : List Rat :=
  let a1 := if classes then alpha.map (· - dot alpha w / w.sum) else alpha
  let integral := dot (posPart a1) w / w.sum
  if integral = 0 then a1 else a1.map (· / integral)

/-- tail of `solve_density_estimation` for uniform grids without boundary: plain means -/
def normaliseU (classes : Bool) (alpha : List Rat) : List Rat :=
  let a1 := if classes then alpha.map (· - alpha.sum / (alpha.length : Rat)) else alpha
  let integral := (posPart a1).sum / (a1.length : Rat)
  if integral = 0 then a1 else a1.map (· / integral)

/-- matrix–vector product and residual `R α − b` (the linear solve itself is `numpy.linalg.solve`, not modelled) -/
def matVec (R : List (List Rat)) (x : List Rat) : List Rat := R.map fun row => dot row x
def residual (R : List (List Rat)) (x b : List Rat) : List Rat := List.zipWith (· - ·) (matVec R x) b

/-- the quadratic form `xᵀ R x` -/
def qform (R : List (List Rat)) (x : List Rat) : Rat := dot x (matVec R x)

end SparseSpace.Gram
