"""C04-keep demo: the dimension-wise refinement WITHOUT rebalancing loses exactness on the initial sparse-grid space
(dim 3, lmin=1, lmax=4, unit cube, margin 1, boundary on).  f = level-2 hat at 3/4 in every dimension (level vector (2,2,2) of the
initial index set); exact integral 1/64, value 1 at (3/4,3/4,3/4).  Run: /venv/bin/python C04-keep-demo.py  (VERIF_REPO overrides /repo).
Output per line: version, (integral after each evaluation, final lmax, __call__((3/4,3/4,3/4)))."""
import sys, io, contextlib
import os
sys.path.insert(0, os.environ.get('VERIF_REPO', '/repo'))
import numpy as np
import warnings; warnings.filterwarnings('ignore')
from sparseSpACE.spatiallyAdaptiveSingleDimension2 import SpatiallyAdaptiveSingleDimensions2
from sparseSpACE.Function import Function
from sparseSpACE.ErrorCalculator import ErrorCalculator
from sparseSpACE.Grid import GlobalTrapezoidalGrid
from sparseSpACE.GridOperation import Integration
from sparseSpACE.Utils import log_levels, print_levels

def hat(x):  # level 2 hat at 3/4 on [0,1]
    return max(0.0, 1 - abs(x - 0.75) / 0.25)
class F(Function):
    def eval(self, x): return hat(x[0]) * hat(x[1]) * hat(x[2])
    def output_length(self): return 1
class Scripted(ErrorCalculator):
    def __init__(self): super().__init__(); self.table = {}
    def calc_error(self, ro, norm, volume_weights=None):
        return self.table.get((int(ro.this_dim), float(ro.start)), 0.0)
def run(version, steps):
    a = np.zeros(3); b = np.ones(3)
    grid = GlobalTrapezoidalGrid(a, b, boundary=True, modified_basis=False)
    f = F()
    op = Integration(f, grid=grid, dim=3, reference_solution=np.array([1/64]))
    ec = Scripted()
    sa = SpatiallyAdaptiveSingleDimensions2(a, b, version=version, operation=op, margin=1.0, rebalancing=False,
                                           log_level=log_levels.WARNING, print_level=print_levels.NONE)
    buf = io.StringIO()
    with contextlib.redirect_stdout(buf):
        ec.table = steps[0]
        res = sa.performSpatiallyAdaptiv(1, 4, errorOperator=ec, tol=-1, max_evaluations=0, print_output=False)
        out = [float(np.asarray(res[3]).ravel()[0])]
        for k in range(len(steps)):
            sa.refine()
            ec.table = steps[k+1] if k+1 < len(steps) else {}
            res = sa.continue_adaptive_refinement(tol=-1, max_evaluations=0)
            out.append(float(np.asarray(res[3]).ravel()[0]))
        val = sa([(0.75, 0.75, 0.75)])
    return out, list(sa.lmax), float(np.asarray(val).ravel()[0])

s3 = {(0,0.0):1.0,(1,0.0):1.0,(2,0.0):1.0}
s2 = {(0,0.0):1.0,(1,0.0):1.0}
s12 = {(1,0.0):1.0,(2,0.0):1.0}
print('history A (2 refine calls): versions 6 and 8 fail, 3 and 7 exact')
for v in [3,6,7,8]:
    print(' ', v, run(v, [s3, s12]))
print('history B (6 refine calls): version 7 fails')
print(' ', 7, run(7, [s3,s3,s3,s2,s2,s2]))
print('history C (5 refine calls): version 3 fails (float rounding of 5/3)')
print(' ', 3, run(3, [s3]*5))
