"""C18: the genuine defects of DataSet on the real code (run: /venv/bin/python handoff/C18-demo.py [repo])"""
import sys, warnings
warnings.filterwarnings("ignore")
sys.path.insert(0, sys.argv[1] if len(sys.argv) > 1 else "/repo")
import numpy as np
from sparseSpACE.DEMachineLearning import DataSet


def mk(vals, labs):
    return DataSet((np.array(vals, dtype=float), np.array(labs, dtype=np.int64)))


def attempt(f, *a):
    try:
        return f(*a)
    except Exception as e:  # noqa: BLE001
        return "%s: %s" % (type(e).__name__, str(e)[:70])


print("1 concatenate never refuses different scalings")
x = mk([[0], [1], [2], [3]], [0, 0, 1, 1]); y = mk([[0], [1], [2], [4]], [0, 0, 1, 1]); y.scale_range((0, 1))
print("   same_scaling:", x.same_scaling(y), " concatenate ->", attempt(lambda: x.concatenate(y).get_data()[0].ravel().tolist()))

print("2 shared _scaling_factor array: reverting a part destroys the parent's factor")
ds = mk([[0, 0], [1, 2], [2, 4], [3, 8]], [0, 1, 0, 1]); ds.scale_range((0, 1))
a, b = ds.split_pieces(0.5); print("   factor before:", ds.get_scaling_factor()); a.revert_scaling()
print("   factor of parent after a.revert_scaling():", ds.get_scaling_factor()); ds.revert_scaling()
print("   parent after its own revert (should be the original 0..3 / 0..8):", ds.get_data()[0].tolist())

print("3 split_pieces label views + move_boundaries_to_front")
ds = mk([[5], [1], [2], [0], [9]], [0, 1, 2, 3, 4]); a, b = ds.split_pieces(0.6)
print("   part before:", a.get_data()[0].ravel().tolist(), a.get_data()[1].tolist()); ds.move_boundaries_to_front()
print("   part after parent.move_boundaries_to_front():", a.get_data()[0].ravel().tolist(), a.get_data()[1].tolist())

print("4 one-dimensional data scaled by shift_value/scale_factor")
ds = mk([[0], [1], [2], [3]], [0, 0, 1, 1]); ds.shift_value(1.0); a, b = ds.split_pieces(0.5)
print("   halves concatenated ->", attempt(a.concatenate, b))
print("   remove_samples([0, 2]) ->", attempt(ds.remove_samples, [0, 2]), "; samples left:", ds.get_data()[0].ravel().tolist())

print("5 repeated removal index")
ds = mk([[0], [1], [2], [3]], [0, 0, 1, 1]); r = ds.remove_samples([1, 1])
print("   removed:", r.get_data()[0].ravel().tolist(), "kept:", ds.get_data()[0].ravel().tolist())

print("6 remove_samples([]) on a scaled set")
ds = mk([[0], [1], [3]], [0, 0, 1]); ds.scale_range((0, 1)); r = ds.remove_samples([])
print("   parent scaled:", ds.is_scaled(), " returned set scaled:", r.is_scaled(), r.get_scaling_range())

print("7 emptied + flattened set cannot be concatenated")
x = mk([[1, 2]], [0]); x.remove_samples([0]); x.shuffle()
print("   ->", attempt(x.concatenate, mk([[1, 2]], [0])))

print("8 failed overriding shift on an empty scaled set loses _original_min")
ds = mk([[1, 2], [3, 4]], [0, 1]); ds.scale_range((0, 1)); e, f = ds.split_without_labels()
print("   shift on the empty part ->", attempt(e.shift_value, 1.0, True), "; then split_pieces ->", attempt(e.split_pieces, 0.5))

print("remove_samples([len]) is rejected (IndexError) with the data intact:")
ds = mk([[0], [1], [2], [3]], [0, 0, 1, 1]); print("   ->", attempt(ds.remove_samples, [0, 4]), ds.get_data()[0].ravel().tolist())
