"""Witnesses of the C20 findings.  Usage: /venv/bin/python -W ignore handoff/C20-demo.py [repo-path, default /repo]

Each block prints what the implementation does and what the property demands.  With C20-fix-1/2/3.diff applied
(`cd <copy of /repo> && git apply /verif/handoff/C20-fix-N.diff`) blocks 1-3 print the expected values."""
import contextlib
import io
import sys
import warnings

repo = sys.argv[1] if len(sys.argv) > 1 else "/repo"
sys.path.insert(0, repo)
warnings.filterwarnings("ignore")
import numpy as np  # noqa: E402
from sparseSpACE.GridOperation import Regression  # noqa: E402


def quiet(f, *a, **k):
    with contextlib.redirect_stdout(io.StringIO()):
        return f(*a, **k)


def attempt(label, f):
    try:
        print("   %-46s -> %s" % (label, f()))
    except Exception as e:
        print("   %-46s -> RAISES %s: %s" % (label, type(e).__name__, str(e)[:90]))


print("repo:", repo, " numpy", np.__version__)

print("\n1. fix-1  Opticom options 1/2 (the repo's own test_Opticom_sum_always_1): coefficients must sum to 1")
for opt in (1, 2, 3):
    def run(opt=opt):
        r = quiet(Regression, np.array([[0.3]] * 4), np.array([1, 1, 1, 1]), 0.1, 'C')
        c = quiet(r.train, 0.5, 1, 3, False)
        quiet(r.optimize_coefficients, c, opt)
        return "sum = %r" % float(sum(g.coefficient for g in c.scheme))
    attempt("optimize_coefficients(option %d)" % opt, run)
for opt in (1, 2, 3):
    def run(opt=opt):
        r = quiet(Regression, np.array([[0.3]] * 4), np.array([1, 1, 1, 1]), 0.1, 'C')
        c = quiet(r.train_spatially_adaptive, 0.5, 0.5, 1e-5, 0, False, False)
        quiet(r.optimize_coefficients_spatially_adaptive, c, opt)
        return "sum = %r" % float(sum(g.coefficient for g in c.scheme))
    attempt("..._spatially_adaptive(option %d)" % opt, run)

print("\n2. fix-2  default construction with a target below -1 (expected: constructs, targets unchanged)")
attempt("Regression([[.5],[.25]], [-2, 1], 0, 'C')",
        lambda: quiet(Regression, np.array([[0.5], [0.25]]), np.array([-2.0, 1.0]), 0, 'C').target_values)

print("\n3. fix-3  design matrix on the dimension-wise path, feature column [0, .5, 1] (expected [0.1, 1.0, 0.1])")
r = quiet(Regression, np.array([[0.0], [0.5], [1.0]]), np.array([1.0, 2.0, 3.0]), 0, 'C')
r.training_data = r.data
print("   scaled samples:", [repr(float(v)) for v in r.data[:, 0]])
print("   build_A_matrix_dimension_wise([[0,.5,1]]):", r.build_A_matrix_dimension_wise([[0, .5, 1]], None).T[0])
r.grid.numPoints = np.array([1])
print("   build_A_matrix([1])  (uniform path)      :", r.build_A_matrix([1]).T[0])

print("\n4. finding  build_C_matrix, anisotropic level vector (1,2): C[0][0] (Gram matrix of the gradients: 10/3)")
r = quiet(Regression, np.array([[0.3, 0.3]]), np.array([1.0]), 0.1, 'C')
r.grid.numPoints = np.array([1, 3])
print("   C[0][0] =", r.build_C_matrix([1, 2])[0][0], "   (S_1 M_2 + M_1 S_2 = 4*(1/6) + (1/3)*8 = 3.3333)")

print("\n5. finding  build_C_matrix_dimension_wise, 1-D grid [0,.25,.5,.75,1]: C[0][2] (supports only touch: 0)")
r = quiet(Regression, np.array([[0.3]]), np.array([1.0]), 0.1, 'C')
print("   C[0][2] =", r.build_C_matrix_dimension_wise([[0., .25, .5, .75, 1.]], None)[0][2])
C = r.build_C_matrix_dimension_wise([[0., .5, .625, .75, .875, 1.]], None)
print("   grid [0,.5,.625,.75,.875,1]: min eigenvalue =", float(np.linalg.eigvalsh(C).min()), "  1^T C 1 =", float(np.ones(4) @ C @ np.ones(4)),
      " (positive semi-definite demanded; true energy of the constant vector: 10)")

print("\n6. finding  build_C_matrix_dimension_wise, 2-D grid [0,.5,1]x[0,.25,.5,1] (Gram: [[3.3333,-1.1667],[-1.1667,3.0]])")
r = quiet(Regression, np.array([[0.3, 0.3]]), np.array([1.0]), 0.1, 'C')
print("   C =", r.build_C_matrix_dimension_wise([[0., .5, 1.], [0., .25, .5, 1.]], None).tolist())

print("\n7. finding  Opticom without guard against a zero sum / zero validation error")
def run():
    r = quiet(Regression, np.array([[0.3]] * 4), np.array([1, 1, 1, 1]), 0.0, 'C')
    c = quiet(r.train, 0.5, 1, 3, False)
    with np.errstate(all="ignore"):
        quiet(r.optimize_coefficients, c, 3)
    return [float(g.coefficient) for g in c.scheme]
attempt("lambda=0, exactly fitted data, option 3", run)
