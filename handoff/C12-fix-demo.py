"""Demo of the C12 findings and of the proposed repairs handoff/C12-fix-{1..5}.diff.

    /venv/bin/python handoff/C12-fix-demo.py [/path/to/repo]        (default /repo)

Run it on the unchanged tree, then on a scratch copy with the diffs applied
(cp -r /repo /tmp/r && git -C /tmp/r apply /verif/handoff/C12-fix-all.diff), and compare."""
import sys
import warnings
import math

warnings.filterwarnings("ignore")
repo = sys.argv[1] if len(sys.argv) > 1 else "/repo"
sys.path.insert(0, repo)
import numpy as np  # noqa: E402
from scipy import integrate  # noqa: E402
from sparseSpACE.Function import (GenzCornerPeak, FunctionMultilinear, FunctionCantileverBeamD,  # noqa: E402
                                  GenzDiscontinious2, GenzOszillatory)


def show(title, thunk, expected):
    try:
        got = repr(thunk())
    except Exception as e:
        got = "raises %s: %s" % (type(e).__name__, e)
    print("%-58s %s\n%58s expected: %s" % (title, got, "", expected))


print("repository under test:", repo, "\n")

# fix-1: empty batch
f = GenzCornerPeak([1.0, 1.5])
show("1  f([]).shape", lambda: f([]).shape, "(0, 1)")
show("1  f(np.zeros((0, 2))).shape", lambda: f(np.zeros((0, 2))).shape, "(0, 1)")

# fix-2: FunctionMultilinear off the unit cube
m = FunctionMultilinear([1.0, 2.0])
num = integrate.dblquad(lambda y, x: m.eval([x, y]), 0, 2, lambda x: 0, lambda x: 3)[0]
show("2  FunctionMultilinear([1,2]) on [0,2]x[0,3]", lambda: m.getAnalyticSolutionIntegral([0, 0], [2, 3]), "%.6f (dblquad)" % num)
show("2  ... on the unit square (unchanged)", lambda: m.getAnalyticSolutionIntegral([0, 0], [1, 1]), "1.5")

# fix-3: declared output length
c = FunctionCantileverBeamD()
show("3  FunctionCantileverBeamD()((2.9e7, 500., 1000.))", lambda: c((2.9e7, 500.0, 1000.0)), "array of 2 values")
g = GenzDiscontinious2([1.0, 0.5], [0.75, 1.0])
show("3  GenzDiscontinious2(...)([(0.5, 0.5), (1.0, 0.5)])", lambda: g([(0.5, 0.5), (1.0, 0.5)]), "array of shape (2, 2)")

# fix-4: GenzOszillatory with all coefficients zero
o = GenzOszillatory([0.0, 0.0], 0.3)
show("4  GenzOszillatory([0,0], 0.3) on [0.5,1.5]x[0.25,2]", lambda: o.getAnalyticSolutionIntegral([0.5, 0.25], [1.5, 2.0]),
     "%.6f = cos(2 pi 0.3) * 1.75" % (math.cos(2 * math.pi * 0.3) * 1.75))

# fix-5: counter with caching off
h = GenzCornerPeak([1.0, 1.5])
h.deactivate_caching()
h((0.5, 0.25)); h((0.25, 0.25)); h([(0.5, 0.5)])
show("5  3 distinct points (2 single, 1 batch), caching off: size", lambda: h.get_f_dict_size(), "3")
