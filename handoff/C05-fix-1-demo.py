"""Demo for C05-fix-1 (evaluate_final_combi resets before it recomputes).

    /venv/bin/python /verif/handoff/C05-fix-1-demo.py [repo-dir]      (default /repo)

Unchanged tree:   reevaluate_at_end=True and evaluate_final_combi() report TWICE the combination
                  (2-D GenzCornerPeak([1, 1.5]) on [0,1]^2, extend-split and dimension-wise: 0.1303.. -> 0.2606..).
With the diff of /verif/handoff/C05-fix-1.diff applied to a copy of the repo: both report the combination.
"""
import contextlib, io, logging, sys, warnings
warnings.filterwarnings("ignore")
repo = sys.argv[1] if len(sys.argv) > 1 else "/repo"
sys.path.insert(0, repo)
import numpy as np
logging.disable(logging.CRITICAL)
from sparseSpACE.Function import GenzCornerPeak
from sparseSpACE.Grid import TrapezoidalGrid, GlobalTrapezoidalGrid
from sparseSpACE.GridOperation import Integration
from sparseSpACE.ErrorCalculator import ErrorCalculatorExtendSplit, ErrorCalculatorSingleDimVolumeGuided
from sparseSpACE.spatiallyAdaptiveExtendSplit import SpatiallyAdaptiveExtendScheme
from sparseSpACE.spatiallyAdaptiveSingleDimension2 import SpatiallyAdaptiveSingleDimensions2

a, b = np.zeros(2), np.ones(2)


def run(strategy, reevaluate):
    f = GenzCornerPeak(coeffs=[1.0, 1.5])
    if strategy == "extend-split":
        op = Integration(f, grid=TrapezoidalGrid(a, b, boundary=True), dim=2)
        s = SpatiallyAdaptiveExtendScheme(a, b, operation=op, version=0)
        ec = ErrorCalculatorExtendSplit()
    else:
        op = Integration(f, grid=GlobalTrapezoidalGrid(a, b, boundary=True), dim=2,
                         reference_solution=f.getAnalyticSolutionIntegral(a, b))
        s = SpatiallyAdaptiveSingleDimensions2(a, b, operation=op, version=6)
        ec = ErrorCalculatorSingleDimVolumeGuided()
    with contextlib.redirect_stdout(io.StringIO()):
        r = s.performSpatiallyAdaptiv(1, 2, ec, tol=-1, max_evaluations=60, print_output=False, reevaluate_at_end=reevaluate)
    return s, np.array(r[3])


bad = 0
for strategy in ("extend-split", "dimension-wise"):
    s0, plain = run(strategy, False)
    s1, reev = run(strategy, True)
    with contextlib.redirect_stdout(io.StringIO()):
        again = np.array(s0.evaluate_final_combi()[0])
    same = np.allclose(plain, reev) and np.allclose(plain, again)
    bad += 0 if same else 1
    print("%-15s reevaluate_at_end=False %.10f | reevaluate_at_end=True %.10f | evaluate_final_combi() %.10f | %s"
          % (strategy, plain[0], reev[0], again[0], "EQUAL" if same else "DIFFERENT (property C05 violated)"))
sys.exit(1 if bad else 0)
